"""C01 - generated data validates against its own schema, for every outcome of the random draws.

The stdlib `random` module used by d42.generation._random is replaced by TapeRandom: every draw is
a solver variable constrained only by the documented contract of randint/choice/uniform.  Post:
fake(S) does not raise and validate(S, fake(S)) is clean.  Pre: satisfiable(spec) (conservative).
"""
from engine.hgen import mk

ASSUMPTIONS = [
    "random.randint(a,b) returns any integer in [a,b] (ValueError if a>b); random.choice(seq) any member "
    "(IndexError on empty); random.uniform(a,b) any double between a and b - CPython's own rounding inside "
    "uniform() is outside the claim",
    "generator default caps scaled down for the run: STR_LEN_MAX=3, LIST_LEN_MAX=2, BYTES_LEN_MAX=2 (module "
    "attributes of d42.generation._generator); INT/FLOAT defaults are the real ones",
    "draw tape: up to 8 int draws, 4 char draws, 2 float draws per fake(); paths needing more are abandoned "
    "(the 'allhigh' reachability twin shows the longest run fits)",
    "precondition satisfiable(spec) is a conservative sufficient condition: schemas for which it cannot show "
    "a conforming value exists are skipped (e.g. typed list whose element schema is unsatisfiable)",
    "float precision grid (Random.random_float with precision) is decided by the fpsym engine, not here",
    "NaN constraint parameters are excluded",
    "unfixed schema.date (date.today() - timedelta(days=draw)) is not encoded: CrossHair substitutes its own "
    "timedelta model, which cannot be subtracted from a real date; unfixed uuid4/datetime run concretely",
]

BOUNDS = ("per harness: fixed schema shape; ints unbounded; alphabets <= 3 chars, substrings <= 2 chars, fixed "
          "values <= 3 chars; list/str length caps 2/3; tape 8/4/2")

DRAWS = "d0: int, d1: int, d2: int, d3: int, d4: int, d5: int, d6: int, d7: int"
CHARS = "c0: str, c1: str, c2: str, c3: str"
FLOATS = "u0: float, u1: float"

BODY = """
spec = {spec}
try:
    S = {build}
except (DeclarationError, SubstitutionError):
    raise IgnoreAttempt("declaration / substitution rejected")
assume({sat})
with gen_env({ints}, {chars}, {floats}, small={small}{extra_env}) as t:
    v = fake(S)
res = validate(S, v)
return (not res.has_errors()), draw_tag(t)
"""

FUNCS = ("generation/_generator.py:Generator.visit_*", "generation/_random.py:Random.random_int/random_str/"
         "random_choice/random_float(no precision)", "generation/__init__.py:generate",
         "validation/_validator.py:Validator.visit_*")


def g(name, params, spec, chars=False, floats=False, build="build(spec)", sat="satisfiable(spec)", pre=(),
      covers=("allhigh", "alllow"), timeout=60, kf=None, tier="quick", ints="(d0, d1, d2, d3, d4, d5, d6, d7)", small=True,
      extra_env=""):
    ps = [p for p in [params, DRAWS, CHARS if chars else "", FLOATS if floats else ""] if p]
    pre = list(pre)
    if chars:
        pre += ["len(c0) == 1 and len(c1) == 1 and len(c2) == 1 and len(c3) == 1"]
    if floats:
        pre += ["u0 == u0 and u1 == u1"]
    return dict(name=name, params=", ".join(ps), spec=spec, build=build, sat=sat, pre=pre, covers=covers,
                timeout=timeout, kf=kf or {}, tier=tier, ints=ints, small=small, extra_env=extra_env,
                chars="(c0, c1, c2, c3)" if chars else "()", floats="(u0, u1)" if floats else "()")


def entries():
    L = []
    INT_A = '("int", Nil, a, Nil)'
    L.append(g("int.minmax", "mn: int, mx: int", '("int", Nil, mn, mx)'))
    L.append(g("int.min", "mn: int", '("int", Nil, mn, Nil)'))
    L.append(g("int.max", "mx: int", '("int", Nil, Nil, mx)'))
    L.append(g("int.plain", "", '("int", Nil, Nil, Nil)'))
    L.append(g("int.value.minmax", "x: int, mn: int, mx: int", '("int", x, mn, mx)', covers=("nodraw",)))
    NN = ["mn == mn", "mx == mx"]
    L.append(g("float.minmax", "mn: float, mx: float", '("float", Nil, mn, mx, Nil)', floats=True, pre=NN, covers=("nodraw",)))
    L.append(g("float.min", "mn: float", '("float", Nil, mn, Nil, Nil)', floats=True, pre=NN[:1], covers=("nodraw",)))
    L.append(g("float.max", "mx: float", '("float", Nil, Nil, mx, Nil)', floats=True, pre=NN[1:], covers=("nodraw",)))
    L.append(g("float.plain", "", '("float", Nil, Nil, Nil, Nil)', floats=True, covers=("nodraw",)))
    L.append(g("float.value", "x: float, mn: float", '("float", x, mn, Nil, Nil)', pre=["x == x", "mn == mn"], covers=("nodraw",)))
    L.append(g("bool", "x: bool, hasv: bool", '("bool", x if hasv else Nil)', covers=("allhigh", "alllow", "nodraw")))
    L.append(g("none", "", '("none",)', covers=("nodraw",)))
    L.append(g("bytes.plain", "", '("bytes", Nil)', chars=True))
    L.append(g("bytes.value", "x: bytes", '("bytes", x)', pre=["len(x) <= 3"], covers=("nodraw",)))
    # ---- str
    L.append(g("str.plain", "", '("str", Nil, NOLEN, Nil, Nil, Nil)', chars=True))
    L.append(g("str.len", "n: int", '("str", Nil, (n, Nil, Nil), Nil, Nil, Nil)', chars=True, pre=["n <= 4"], covers=("nodraw",)))
    L.append(g("str.minlen", "n: int", '("str", Nil, (Nil, n, Nil), Nil, Nil, Nil)', chars=True, pre=["n <= 4"]))
    L.append(g("str.maxlen", "n: int", '("str", Nil, (Nil, Nil, n), Nil, Nil, Nil)', chars=True, pre=["n <= 4"]))
    L.append(g("str.lenrange", "a: int, b: int", '("str", Nil, (Nil, a, b), Nil, Nil, Nil)', chars=True, pre=["b <= 4"]))
    L.append(g("str.alphabet", "al: str", '("str", Nil, NOLEN, al, Nil, Nil)', chars=True, pre=["len(al) <= 3"],
               kf={"F15": "len(al) > 0"}))
    L.append(g("str.alphabet.len", "al: str, a: int, b: int", '("str", Nil, (Nil, a, b), al, Nil, Nil)', chars=True,
               pre=["len(al) <= 2", "b <= 3"], kf={"F15": "len(al) > 0 or b <= 0"}))
    L.append(g("str.contains", "sub: str", '("str", Nil, NOLEN, Nil, sub, Nil)', chars=True, pre=["len(sub) <= 2"]))
    L.append(g("str.contains.long", "sub: str", '("str", Nil, NOLEN, Nil, sub, Nil)', chars=True, pre=["3 <= len(sub) <= 5"],
               covers=("allhigh",)))
    L.append(g("str.contains.len", "sub: str, n: int", '("str", Nil, (n, Nil, Nil), Nil, sub, Nil)', chars=True,
               pre=["len(sub) <= 2", "n <= 4"]))
    L.append(g("str.contains.lenrange", "sub: str, a: int, b: int", '("str", Nil, (Nil, a, b), Nil, sub, Nil)', chars=True,
               pre=["len(sub) <= 2", "b <= 4"], timeout=90))
    L.append(g("str.alpha.contains.len", "al: str, sub: str, a: int, b: int", '("str", Nil, (Nil, a, b), al, sub, Nil)',
               chars=True, pre=["len(al) <= 2", "len(sub) <= 1", "b <= 2"], timeout=120,
               kf={"F15": "len(al) > 0 or b <= len(sub)"}))
    L.append(g("str.value.len.contains", "x: str, sub: str, a: int, b: int", '("str", x, (Nil, a, b), Nil, sub, Nil)',
               pre=["len(x) <= 2", "len(sub) <= 1"], covers=("nodraw",), timeout=90))
    # menu-bounded: the declaration-time alphabet check builds a set of the missing characters (hashing)
    L.append(g("str.value.alphabet.menu", "i: int, j: int",
               '("str", pick(("", "a", "ab", "b", "ca"), i), NOLEN, pick(("", "a", "ba", "abc"), j), Nil, Nil)',
               covers=("nodraw",)))
    for i, pat in enumerate([r"^a+$", r"[0-9]{2}", r"b|cd", r"a.c", r"^.{1,2}$", r"[^a-y]z", r"[^_\d]x", r"[^-.\w]"]):
        L.append(g("str.regex%d" % i, "", '("str", Nil, NOLEN, Nil, Nil, r"%s")' % pat, chars=True,
                   covers=(("allhigh",) if i in (0, 2, 4) else ("mixed",)) if i < 3 or i == 4 else ("nodraw",)))
    # ---- menu types
    L.append(g("uuid4", "i: int", '("uuid4", pick(UUIDS4, i, Nil))', covers=("nodraw",)))
    L.append(g("datetime", "i: int", '("datetime", pick(DATETIMES, i, Nil))', covers=("nodraw",)))
    L.append(g("date", "i: int", '("date", pick(DATES, i))', covers=("nodraw",)))
    # ---- lists
    L.append(g("list.untyped", "", '("list", None, NOLEN)'))
    L.append(g("list.untyped.len", "k: int", '("list", None, (k, Nil, Nil))', pre=["k <= 3"], covers=("nodraw",)))
    L.append(g("list.untyped.range", "p: int, q: int", '("list", None, (Nil, p, q))', pre=["q <= 3"]))
    L.append(g("list.untyped.min", "p: int", '("list", None, (Nil, p, Nil))', pre=["p <= 4"]))
    L.append(g("list.typed", "a: int", '("list_t", %s, NOLEN)' % INT_A))
    L.append(g("list.typed.len", "a: int, k: int", '("list_t", %s, (k, Nil, Nil))' % INT_A, pre=["k <= 3"]))
    L.append(g("list.typed.min", "a: int, p: int", '("list_t", %s, (Nil, p, Nil))' % INT_A, pre=["p <= 4"]))
    L.append(g("list.typed.range", "a: int, p: int, q: int", '("list_t", %s, (Nil, p, q))' % INT_A, pre=["q <= 3"]))
    L.append(g("list.typed.str", "n: int", '("list_t", ("str", Nil, (Nil, Nil, n), Nil, Nil, Nil), (Nil, Nil, 2))', chars=True,
               pre=["n <= 1"]))
    L.append(g("list.exact", "a: int, b: int", '("list_e", [%s, ("int", Nil, Nil, b)], NOLEN)' % INT_A))
    L.append(g("list.exact.len", "a: int, k: int", '("list_e", [%s, ("none",)], (k, Nil, Nil))' % INT_A))
    L.append(g("list.exact.empty", "", '("list_e", [], NOLEN)', covers=("nodraw",)))
    L.append(g("list.head", "a: int", '("list_e", [%s, ("none",), E], NOLEN)' % INT_A))
    L.append(g("list.tail", "a: int", '("list_e", [E, %s, ("bool", Nil)], NOLEN)' % INT_A))
    L.append(g("list.body", "a: int", '("list_e", [E, %s, E], NOLEN)' % INT_A))
    L.append(g("list.onlyellipsis", "", '("list_e", [E], NOLEN)', covers=("nodraw",)))
    F2 = {"F2": "k <= 1"}
    L.append(g("list.head.len", "a: int, k: int", '("list_e", [%s, E], (k, Nil, Nil))' % INT_A, kf=F2))
    L.append(g("list.tail.minlen", "a: int, k: int", '("list_e", [E, %s], (Nil, k, Nil))' % INT_A, kf=F2))
    L.append(g("list.body.range", "a: int, k: int, q: int", '("list_e", [E, %s, E], (Nil, k, q))' % INT_A, kf=F2))
    L.append(g("list.head.maxlen", "a: int, q: int", '("list_e", [%s, E], (Nil, Nil, q))' % INT_A))
    # ---- dicts / any / alias / nesting
    D1 = '("dict", [("a", False, %s), ("b", True, ("int", Nil, Nil, b)), ("c", False, ("str", Nil, (k, Nil, Nil), Nil, Nil, Nil))], rel)' % INT_A
    L.append(g("dict.mixed", "a: int, b: int, k: int, rel: bool", D1, chars=True, pre=["k <= 2"]))
    L.append(g("dict.mixed.first", "a: int, b: int, k: int", D1.replace(", rel)", ', "first")'), chars=True, pre=["k <= 2"]))
    L.append(g("dict.mixed.mid", "a: int, b: int, k: int", D1.replace(", rel)", ', "mid")'), chars=True, pre=["k <= 2"]))
    L.append(g("dict.untyped", "", '("dict", None)', covers=("nodraw",)))
    L.append(g("dict.empty", "rel: bool", '("dict", [], rel)', covers=("nodraw",)))
    L.append(g("any.2", "a: int, n: int", '("any", [%s, ("str", Nil, (n, Nil, Nil), Nil, Nil, Nil), ("none",)])' % INT_A,
               chars=True, pre=["n <= 2"]))
    L.append(g("any.empty", "", '("any", None)', covers=("nodraw",)))
    L.append(g("alias", "a: int, b: int", '("alias", "T", ("int", Nil, a, b))'))
    L.append(g("nest", "a: int, p: int", '("dict", [("r", False, ("list_t", ("dict", [("id", False, %s), ("t", True, ("none",))], False), (Nil, p, Nil)))], True)' % INT_A,
               pre=["p <= 3"]))
    L.append(g("nest.any.list", "a: int, b: int", '("list_t", ("any", [("int", Nil, a, Nil), ("list_t", ("int", Nil, Nil, b), (Nil, Nil, 1))]), (Nil, Nil, 2))'))
    # ---- thorough tier: the REAL default caps (STR_LEN_MAX=32, LIST_LEN_MAX=16, BYTES_LEN_MAX=32); every character
    # choice is concretised to the first member of the alphabet so that only the length arithmetic is symbolic
    REAL = dict(small=False, extra_env=", first_char=True", tier="thorough", timeout=300)
    L.append(g("real.str.plain", "", '("str", Nil, NOLEN, Nil, Nil, Nil)', covers=("allhigh", "alllow"), **REAL))
    L.append(g("real.str.minlen", "n: int", '("str", Nil, (Nil, n, Nil), Nil, Nil, Nil)', pre=["n <= 40"], **REAL))
    L.append(g("real.str.contains", "sub: str, n: int", '("str", Nil, (Nil, Nil, n), Nil, sub, Nil)', pre=["len(sub) <= 2", "n <= 6"], **REAL))
    L.append(g("real.bytes", "", '("bytes", Nil)', **REAL))
    L.append(g("real.list.untyped.min", "p: int", '("list", None, (Nil, p, Nil))', pre=["p <= 20"], **REAL))
    L.append(g("real.list.typed.bool", "q: int", '("list_t", ("bool", Nil), (Nil, Nil, q))', pre=["q <= 5"], covers=("mixed",), **REAL))
    # ---- combinators and substitution results (schema built by expression; satisfiable by construction)
    L.append(g("dict.add", "a: int, b: int, rel: bool", 'None',
               build='build(("dict", [("a", False, ("int", Nil, a, Nil)), ("x", True, ("none",))], rel)) + build(("dict", [("a", False, ("int", Nil, Nil, b)), ("y", False, ("bool", Nil))], False))',
               sat="True"))
    L.append(g("union", "a: int, b: int", 'None', build='build(("int", Nil, a, Nil)) | build(("int", Nil, Nil, b)) | schema.none', sat="True"))
    L.append(g("subst.dict.partial", "a: int, v: int", 'None',
               build='substitute(build(("dict", [("a", False, ("int", Nil, a, Nil)), ("b", False, ("int", Nil, Nil, a)), ("c", True, ("none",))], False)), {"a": v})',
               sat="v >= a"))
    L.append(g("subst.list.typed", "a: int, v0: int, v1: int", 'None',
               build='substitute(build(("list_t", ("int", Nil, a, Nil), NOLEN)), [v0, v1])', sat="v0 >= a and v1 >= a", covers=("nodraw",)))
    L.append(g("subst.list.head", "a: int, v0: int, v1: int", 'None',
               build='substitute(build(("list_e", [("int", Nil, a, Nil), E], NOLEN)), [v0, v1])', sat="v0 >= a", covers=("nodraw",)))
    L.append(g("subst.any", "a: int, v: int", 'None',
               build='substitute(build(("any", [("int", Nil, a, Nil), ("int", Nil, Nil, a)])), v)', sat="True"))
    L.append(g("make_required", "a: int", 'None',
               build='make_required(build(("dict", [("a", True, ("int", Nil, a, Nil)), ("b", True, ("none",))], False)), ["a"])', sat="True"))
    return L


def harnesses(tier, seed, active_kf=()):
    out = []
    for e in entries():
        if e["tier"] == "thorough" and tier != "thorough":
            continue
        body = BODY.format(spec=e["spec"], build=e["build"], sat=e["sat"], chars=e["chars"], floats=e["floats"],
                           ints=e["ints"], small=e["small"], extra_env=e["extra_env"])
        out.append(mk("C01." + e["name"], e["params"], body, covers=e["covers"], pre=e["pre"], timeout=e["timeout"],
                      functions=FUNCS, bounds=BOUNDS, kf=e["kf"], active_kf=active_kf))
    return out


FP_REPLAY = '''#!/venv/bin/python
"""Replay of an fpsym (E2) model against the real Random.random_float (plain CPython). exit 1 = reproduced."""
import sys
sys.path.insert(0, "/verif/engine")
import fpsym
MODEL = %r
PRECISION = %d
ok, detail = fpsym.replay_random_float(MODEL, PRECISION)
print(detail)
print("in range" if ok else "VIOLATES start <= result <= end (or raised)")
sys.exit(0 if ok else 1)
'''


def extra_checks(tier, seed, replay_dir, active_kf=()):
    """Engine E2 (engine/fpsym.py): the precision grid of Random.random_float, exact IEEE-754 doubles.
    Runs in a child process under the overlay interpreter so that z3 and the current d42 are importable."""
    import json
    import os
    import subprocess
    from engine import driver
    precisions = list(range(1, 16)) if tier == "thorough" else [1, 2, 3, 7, 15]
    code = (
        "import sys, json\n"
        "sys.path.insert(0, %r)\n"
        "import fpsym\n"
        "out = {}\n"
        "for p in %r:\n"
        "    recs = fpsym.explore_random_float(p, 11, 53, z3_timeout=%d, cvc5_timeout=%d)\n"
        "    for r in recs:\n"
        "        if r['model']:\n"
        "            ok, detail = fpsym.replay_random_float(r['model'], p)\n"
        "            r['replay_ok'], r['replay_detail'] = ok, detail\n"
        "    out[p] = recs\n"
        "out['lemma_bad'] = {p: fpsym.lemma_check(p) for p in %r}\n"
        "print('@@FPSYM ' + json.dumps(out))\n"
    ) % (os.path.join(driver.ROOT, "engine"), precisions, 120 if tier == "thorough" else 45, 600 if tier == "thorough" else 0, precisions)
    cp = subprocess.run([driver.VENV_PY, "-c", code], capture_output=True, text=True, env=driver.child_env(), timeout=7200)
    res = {"obligations": 0, "discharged": 0, "queries": 0, "solver_s": 0.0, "paths": 0, "replays": 0, "inconclusive": [],
           "violations": [], "samples": [], "coverage": {}}
    data = None
    for line in cp.stdout.splitlines():
        if line.startswith("@@FPSYM "):
            data = json.loads(line[len("@@FPSYM "):])
    if data is None:
        res["obligations"] = 1
        res["inconclusive"].append({"harness": "C01.fpsym", "fn": "random_float", "why": "fpsym run failed: " + cp.stderr[-400:]})
        return res
    lemma_bad = data.pop("lemma_bad")
    per_p = {}
    for p, recs in data.items():
        p = int(p)
        per_p[p] = [{"decisions": r["decisions"], "outcome": r["outcome"], "verdict": r["verdict"], "solver": r["solver"],
                     "solver_s": r["solver_s"]} for r in recs]
        for r in recs:
            res["obligations"] += 1
            res["queries"] += 1
            res["solver_s"] += r["solver_s"]
            name = "C01.fpsym.p%d.path%s" % (p, "".join("T" if d else "F" for d in r["decisions"]))
            if r["verdict"] == "unsat":
                res["discharged"] += 1
                res["paths"] += 1
            elif r["verdict"] == "sat" and r.get("model"):
                res["replays"] += 1
                if r.get("replay_ok") is False:
                    os.makedirs(replay_dir, exist_ok=True)
                    path = os.path.join(replay_dir, name + ".py")
                    with open(path, "w") as f:
                        f.write(FP_REPLAY % (r["model"], p))
                    os.chmod(path, 0o755)
                    res["violations"].append({"harness": name, "args": json.dumps(r["model"]), "replay": path,
                                              "engine_message": r["outcome"], "observed": r.get("replay_detail", "")})
                else:
                    res["inconclusive"].append({"harness": name, "fn": "random_float",
                                                "why": "model did not reproduce on the real function: %s" % r.get("replay_detail")})
            else:
                res["inconclusive"].append({"harness": name, "fn": "random_float", "why": "solver verdict %s on path %s (%s)"
                                            % (r["verdict"], r["decisions"], r["outcome"])})
        if lemma_bad.get(str(p)):
            res["obligations"] += 1
            res["inconclusive"].append({"harness": "C01.fpsym.p%d.lemma" % p, "fn": "round",
                                        "why": "rounding lemma failed on concrete k: %s" % lemma_bad[str(p)][:3]})
    res["samples"].append({"engine": "fpsym", "function": "Random.random_float", "paths_per_precision": {p: len(v) for p, v in per_p.items()}})
    res["coverage"] = {"fpsym": {
        "function": "d42.generation._random.Random.random_float (real function object, operator-overloading IEEE executor)",
        "format": "Float64 FP(11,53)", "precisions": precisions,
        "bound": "start <= end, both finite, |start|, |end| <= 2**51 // 10**precision (grid integers exact); stub: randint any integer "
                 "in [a,b], uniform any double in [a,b]; lemma round(k/10**p, p) == k/10**p validated on 2000 concrete k per precision",
        "property": "no exception and start <= result <= end on every path",
        "paths": per_p}}
    # the composition Generator.visit_float -> Random.random_float -> Validator.visit_float (harness/fp_extra.py)
    from harness import fp_extra
    x = fp_extra.run("C01", tier, replay_dir, active_kf)
    for k in ("obligations", "discharged", "queries", "solver_s", "paths", "replays"):
        res[k] += x[k]
    res["inconclusive"] += x["inconclusive"]
    res["violations"] += x["violations"]
    res["samples"] += x["samples"]
    res["coverage"].update(x["coverage"])
    return res
