"""C14 - from_native(value) denotes exactly that value."""
from engine.hgen import mk

WILD = "Union[None, bool, int, float, str, bytes]"
NOFLOAT = "Union[None, bool, int, str, bytes]"
PRELUDE = "from typing import Union\n"
SB = "not isinstance({0}, (str, bytes)) or len({0}) <= 2"

ASSUMPTIONS = [
    "v = plain value of a fixed shape (depth <= 3, lists <= 3, dicts <= 3 keys incl. int keys) with symbolic leaves; "
    "w = independent value of the same shape family (own lengths, presence flags, leaves, one wild member) - a superset "
    "of the single-step perturbations of v",
    "`same` (engine/hlib.py) is the type-aware deep equality of the property text; pairs that differ only by Python's "
    "True/False == 1/0 identification are left aside; floats compare within the documented isclose tolerance",
    "generation must not draw: the random module is replaced by a stub that raises on any draw",
    "uuid/datetime/date leaves from menus; refused kinds from the 10-member zoo ZOO_UNCONVERTIBLE",
    "numeric.mix: bool/float/int members that are == to each other (True/1.0/1, False/0.0/0) from menus, run with the real "
    "functools.lru_cache (CrossHair normally bypasses caches) so that state hidden in a cache is visible",
    "float leaves: bug-hunting only (isclose over two symbolic doubles is beyond z3's reach for a proof)",
]
BOUNDS = "fixed value shapes, symbolic leaves/lengths/flags; strings and bytes <= 2"
FUNCS = ("utils/_from_native.py:from_native", "validation/_validator.py", "generation/_generator.py")

BODY = """
v = {v}
w = {w}
why = native_problem(v, w)
acc = same(w, v)
return (why == ""), (why or ("equal" if acc else "different"))
"""

BODY_CONCRETE = """
with notrace():       # every parameter is a concrete menu member here
    v = {v}
    w = {w}
    why = native_problem(v, w)
    acc = same(w, v)
return (why == ""), (why or ("equal" if acc else "different"))
"""

H = []


def add(name, params, v, w, pre=(), covers=("equal", "different"), timeout=60, hunt=False, kf=None, real_lru_cache=False, setup="",
        concrete=False):
    H.append(dict(name=name, params=params, v=v, w=w, pre=list(pre), covers=covers, timeout=timeout, hunt=hunt, kf=kf or {},
                  real_lru_cache=real_lru_cache, setup=setup, concrete=concrete))


add("scalar", "v: %s, w: %s" % (NOFLOAT, WILD), "v", "w", [SB.format("v"), SB.format("w")])
add("float", "v: float, w: float", "v", "w", hunt=True, kf={"F13": "v == v"})
add("float.vs.int", "v: float, w: int", "v", "w", covers=("different",), kf={"F13": "v == v"})
add("numeric.mix", "j: int, bi: int, fi: int, ii: int, ui: int",
    "([NB[bi], NF[fi], NI[ii]], [NF[fi], NB[bi], NI[ii]], [NI[ii], NF[fi], NB[bi]], {'e': NB[bi], 'r': NF[fi]}, {'r': NF[fi], 'e': NB[bi]})[j]",
    "([NB[bi], NF[fi], NI[ii]], [NF[fi], NB[bi], NI[ii]], [NI[ii], NF[fi], NB[bi]], {'e': NB[bi], 'r': NF[fi]}, {'r': NF[fi], 'e': NB[bi]})[j]",
    ["0 <= j <= 4", "0 <= bi <= 1", "0 <= fi <= 3", "0 <= ii <= 2", "0 <= ui <= 6"], covers=("equal",), real_lru_cache=True,
    setup="NB, NF, NI = (True, False), (0.0, 1.0, 2.5, -1.0), (0, 1, -1)\nj, bi, fi, ii, ui = conc(j, 4), conc(bi, 1), conc(fi, 3), conc(ii, 2), conc(ui, 6)\n"
          "with notrace():\n    reset_module_state()\n    from_native((None, True, False, 1.0, 0.0, 1, 0)[ui])    # an earlier, unrelated conversion\n",
    concrete=True)
add("uuid", "i: int, j: int", "pick(UUIDS4, i)", "pick(UUID_VALUES, j)")
add("datetime", "i: int, j: int", "pick(DATETIMES + DATES, i)", "pick(DT_VALUES, j)")
add("list.flat", "n: int, i0: int, s0: str, m: int, j0: int, t0: str, u: " + WILD, "mklist(n, i0, s0, None)", "mklist(m, j0, t0, u)",
    ["0 <= n <= 3", "0 <= m <= 3", "len(s0) <= 2", "len(t0) <= 2", SB.format("u")], timeout=90)
add("list.bools", "n: int, b0: bool, b1: bool, m: int, u0: %s, u1: %s" % (NOFLOAT, NOFLOAT), "mklist(n, b0, b1)", "mklist(m, u0, u1)",
    ["0 <= n <= 2", "0 <= m <= 2", SB.format("u0"), SB.format("u1")], timeout=90)
add("list.nested", "n: int, k: int, i0: int, i1: int, b0: bool, m: int, l: int, j0: int, j1: int, u: " + NOFLOAT,
    "mklist(n, [i0], mklist(k, i1, b0))", "mklist(m, [j0], mklist(l, j1, u))",
    ["0 <= n <= 2", "0 <= k <= 2", "0 <= m <= 2", "0 <= l <= 2", SB.format("u")], timeout=120)
add("list.vs.scalar", "n: int, i0: int, w: " + WILD, "mklist(n, i0)", "w", ["0 <= n <= 1", SB.format("w")], covers=("different",))
add("dict.flat", "pa: bool, pb: bool, i0: int, s0: str, qa: bool, qb: bool, qx: bool, j0: int, t0: str",
    "mkdict(('a', pa, i0), ('b', pb, s0))", "mkdict(('a', qa, j0), ('b', qb, t0), ('x', qx, None))",
    ["len(s0) <= 2", "len(t0) <= 2"], timeout=120)
add("dict.intkey", "p1: bool, pn: bool, b0: bool, q1: bool, qn: bool, qs: bool, u: " + NOFLOAT,
    "mkdict((1, p1, b0), (None, pn, None))", "mkdict((1, q1, u), (None, qn, None), ('1', qs, u))", [SB.format("u")], timeout=120)
add("dict.nested", "pa: bool, n: int, i0: int, i1: int, qa: bool, m: int, j0: int, j1: int, qo: bool",
    "{'o': mkdict(('a', pa, i0)), 'l': mklist(n, i1, None)}", "mkdict(('o', qo, mkdict(('a', qa, j0))), ('l', True, mklist(m, j1, None)))",
    ["0 <= n <= 2", "0 <= m <= 2"], timeout=120)
add("dict.vs.other", "pa: bool, i0: int, w: " + WILD, "mkdict(('a', pa, i0))", "w", [SB.format("w")], covers=("different",))
add("dict.in.list", "n: int, pa: bool, i0: int, b0: bytes, m: int, qa: bool, j0: int, c0: bytes",
    "mklist(n, mkdict(('a', pa, i0)), b0)", "mklist(m, mkdict(('a', qa, j0)), c0)",
    ["0 <= n <= 2", "0 <= m <= 2", "len(b0) <= 2", "len(c0) <= 2"], timeout=120)

ZOO_BODY = """
z = pick(ZOO_UNCONVERTIBLE, zi)
v = {v}
try:
    from_native(v)
except ValueError:
    return True, "refused"
return False, "converted"
"""


def harnesses(tier, seed, active_kf=()):
    out = []
    for e in H:
        out.append(mk("C14." + e["name"], e["params"], e["setup"] + (BODY_CONCRETE if e["concrete"] else BODY).format(v=e["v"], w=e["w"]), covers=e["covers"], pre=e["pre"],
                      timeout=e["timeout"], prelude=PRELUDE, functions=FUNCS, bounds=BOUNDS,
                      meta={"hunt": e["hunt"], "real_lru_cache": e["real_lru_cache"]},
                      kf=e["kf"], active_kf=active_kf, cover_timeout=60))
    for name, v in (("zoo.root", "z"), ("zoo.in.list", "[i0, z]"), ("zoo.in.dict", "{'a': i0, 'b': [z]}"),
                    ("zoo.deep", "[[{'k': z}], i0]")):
        out.append(mk("C14." + name, "zi: int, i0: int", ZOO_BODY.format(v=v), covers=("refused",), timeout=60,
                      functions=FUNCS, bounds=BOUNDS))
    return out
