"""E2 obligations (engine/fpsym.py) on the float branch of the validator and of the substitutor, shared by the
properties that speak about floats.  Each property keeps the checks that belong to it."""
import json
import os
import subprocess

KEEP = {
    "C01": ("generate", ("generated-value-validates", "no-exception", "generated-type")),
    "C02": ("visit", ("verdict",)),
    "C03": ("visit", ("value-error-true", "min-error-true", "max-error-true", "unexpected-error-kind")),
    "C08": ("visit", ("no-exception",)),
    "C04": ("usable", ("conforming-value-refused", "result-rejects-substituted-value", "pinned-value-differs")),
    "C12": ("usable", ("only-SubstitutionError", "result-rejects-what-it-generates", "not-idempotent", "result-has-no-float-value")),
    "C05": ("narrow", ("widened", "only-SubstitutionError")),
}

REPLAY = '''#!/venv/bin/python
"""Replay of an fpsym (E2) model against the real d42 code (plain CPython). exit 1 = reproduced."""
import sys
sys.path.insert(0, "/verif/engine")
import fpsym
KIND, CFG, MODEL, CHECK = %r, %r, %r, %r
if KIND == "generate":
    ok, detail = fpsym.replay_generate_float(tuple(CFG), MODEL)
elif KIND == "visit":
    ok, detail = fpsym.replay_visit_float(tuple(CFG), MODEL)
else:
    ok, detail = fpsym.replay_substitute_float(tuple(CFG), MODEL, CHECK)
print(detail)
sys.exit(0 if ok else 1)
'''


def run(prop, tier, replay_dir, active_kf=()):
    from engine import driver
    kind, keep = KEEP[prop]
    skip_f12 = (prop == "C05" and "F12" in active_kf)
    cp = subprocess.run([driver.VENV_PY, os.path.join(driver.ROOT, "engine", "fpsym_run.py"), kind, tier] + (["skip-f12"] if skip_f12 else []), capture_output=True,
                        text=True, env=driver.child_env(), timeout=14400)
    res = {"obligations": 0, "discharged": 0, "queries": 0, "solver_s": 0.0, "paths": 0, "replays": 0, "inconclusive": [],
           "violations": [], "samples": [], "coverage": {}}
    data = None
    for line in cp.stdout.splitlines():
        if line.startswith("@@FPSYM "):
            data = json.loads(line[len("@@FPSYM "):])
    if data is None:
        res["obligations"] = 1
        res["inconclusive"].append({"harness": "%s.fpsym" % prop, "fn": kind, "why": "fpsym run failed: " + cp.stderr[-400:]})
        return res
    summary = []
    for item in data:
        cfg = item["cfg"]
        tag = "v%dmin%dmax%dp%s" % tuple(cfg)
        if item.get("error"):
            res["obligations"] += 1
            res["inconclusive"].append({"harness": "%s.fpsym.%s.%s" % (prop, kind, tag), "fn": kind, "why": item["error"]})
            continue
        mine = [r for r in item["records"] if r["check"] in keep or r["check"] == "budget"]
        summary.append({"cfg": cfg, "queries": len(mine), "paths": len({tuple(r["decisions"]) for r in item["records"]}),
                        "wall_s": item["wall_s"]})
        hunt = (kind == "narrow" and cfg[0] and cfg[3] is None)    # isclose is not transitive: F12, bug-hunting only
        for r in mine:
            res["obligations"] += 1
            res["queries"] += 1
            res["solver_s"] += r["solver_s"]
            name = "%s.fpsym.%s.%s.%s.%s" % (prop, kind, tag, r["check"], "".join("T" if d else "F" for d in r["decisions"]))
            if r["verdict"] == "unsat":
                res["discharged"] += 1
                res["paths"] += 1
            elif r["verdict"] == "sat" and r.get("model"):
                res["replays"] += 1
                if r.get("replay_ok") is False:
                    os.makedirs(replay_dir, exist_ok=True)
                    path = os.path.join(replay_dir, name[:150] + ".py")
                    with open(path, "w") as f:
                        f.write(REPLAY % (kind, cfg, r["model"], r["check"]))
                    os.chmod(path, 0o755)
                    res["violations"].append({"harness": name, "args": json.dumps(r["model"]), "replay": path,
                                              "engine_message": r["outcome"] + " / " + r["check"], "observed": r.get("replay_detail", "")})
                else:
                    res["inconclusive"].append({"harness": name, "fn": kind, "why": "model did not reproduce on the real code: %s"
                                                % r.get("replay_detail")})
            elif hunt:
                res["obligations"] -= 1
                res["coverage"].setdefault("fpsym_bug_hunting_only", []).append(name)
            else:
                res["inconclusive"].append({"harness": name, "fn": kind, "why": "solver verdict %s (%s)" % (r["verdict"], r["outcome"])})
    if skip_f12:
        res["coverage"]["fpsym_excluded_by_known_finding_F12"] = "configs with a fixed value and no precision (isclose is not transitive)"
    res["samples"].append({"engine": "fpsym", "kind": kind, "configs": len(summary), "first": summary[:3]})
    res["coverage"]["fpsym_" + kind] = {
        "functions": (["generation/_generator.py:Generator.visit_float", "generation/_random.py:Random.random_float"] if kind == "generate" else []) +
                     ["validation/_validator.py:Validator.visit_float"] +
                     (["substitution/_substitutor.py:Substitutor.visit_float"] if kind in ("usable", "narrow") else []),
        "format": "Float64 FP(11,53): value under validation = any double incl. +-inf, NaN, denormals; declared value/min/max = any non-NaN "
                  "double consistent with what the DSL accepts (min <= value <= max); precision in %s" % sorted({str(s["cfg"][-1]) for s in summary}),
        "checks_kept_for_this_property": list(keep), "per_config": summary,
        "stubs": "isclose/isfinite bound to their documented algorithms; int/float names shimmed so conversions keep the term; "
                 "float -> int conversions raise OverflowError/ValueError for inf/NaN as CPython does",
    }
    return res
