"""C19 - v1-to-v2 migration rewrites imports and nothing else (menu-bounded, solver as enumerator).

`rewrite_imports` consumes source text through CPython's C parser, so the text cannot stay symbolic.  Modules are
assembled from a grammar of statement forms; every choice (form of the statement before / after, layout of the import
under test, v1 module, which names incl. an unmapped one, aliases, same physical line or not, trailing newline) is a
symbolic index that the solver enumerates exhaustively; the oracle compares the ASTs of input and output.
"""
from engine.hgen import mk

ASSUMPTIONS = [
    "menu-bounded: modules are [statement A] [from-import under test] [statement B] with A, B from 18 forms (incl. a second mapped import, an empty line, a try/except around an import; (assignment, a string assignment with non-ASCII text, relative imports with a module part, "
    "import, unmapped from-import, relative import, star import, nested import inside a def, docstring, comment, if/else, "
    "aliased mapped import with trailing comment, multi-line expression, __future__ import), 4 layouts of the import "
    "(single line, parenthesised multi-line, backslash continuation, parenthesised with comment), every v1 module of the "
    "mapping, 5 name selections (first name, first two, first + an unmapped name, unmapped only, last name), alias on/off, "
    "with/without trailing newline",
    "every one of the mapping's entries (93 on this tree) is imported on its own, with and without alias, and its target "
    "must be importable",
    "oracle: ast of the result vs ast of the input - mapped names imported from their v2 module binding the same local "
    "name, unmapped names from the original module, every other statement ast-identical and in order",
]
BOUNDS = "3-statement modules over a 12-form grammar x 4 layouts x 10 modules x 5 name selections x alias x newline x same-line joins"
FUNCS = ("migration/migrate_v1_to_v2.py:rewrite_imports", "migration/migrate_v1_to_v2.py:mapping")

BODY = """
{conc}
with notrace():
    module = MIG_MODULES[mi]
    mapped = list(MIG_MAPPING[module])
    sel = ([mapped[0]], mapped[:2], [mapped[0], "zzz_unmapped"], ["zzz_unmapped"], [mapped[-1]])[ns]
    names = [(n, ("alias%d" % k if (al and k == 0) else None)) for k, n in enumerate(sel)]
    imp = mig_import_source(module, names, lay)
    a_src, b_src = MIG_OTHER[ORDER[fa]], MIG_OTHER[ORDER[fb]]
    simple = lambda t: len(t) > 1 and "\\n" not in t[:-1] and "#" not in t and not t.startswith(("def", "if", "try", '\"\"\"'))   # noqa: E731
    if join == 1:      # same physical line: "<simple statement>; <import>" (the import may continue on further lines)
        if not simple(a_src) or lay in (3,):
            src = None
        else:
            src = a_src[:-1] + "; " + imp + b_src
    elif join == 2:    # "<import>; <simple statement>" after the last line of the import
        if not simple(b_src) or lay in (3, 4):
            src = None
        else:
            src = a_src + imp[:-1] + "; " + b_src
    else:
        src = a_src + imp + b_src
    if src is not None and not nl:
        src = src.rstrip("\\n")
    why = None if src is None else mig_problem(src)
if why is None:
    raise IgnoreAttempt("combination does not form a valid module")
return (why == ""), (why or "rewritten")
"""

ENTRY = """
i = conc(i, {n})
alias = cb(alias)
with notrace():
    why = mig_entry_problem(i, alias)
return (why == ""), (why or "rewritten")
"""


def harnesses(tier, seed, active_kf=()):
    from d42.migration.migrate_v1_to_v2 import mapping
    n_entries = sum(len(v) for v in mapping.values())
    n_mod = len(mapping)
    thorough = tier == "thorough"
    out = []
    forms = 17 if thorough else 8
    order = (0, 1, 2, 3, 4, 12, 13, 14, 15, 16, 17, 5, 9, 6, 7, 8, 10, 11)     # quick tier takes the first 9 of these forms
    joins = (0,) if "F19" in active_kf else (0, 1, 2)
    for lay in range(5):
        for join in joins:
            if (join == 1 and lay == 3) or (join == 2 and lay in (3, 4)):
                continue
            for mi in range(n_mod):      # one harness per v1 module (parallelism)
                if not thorough and lay != 0 and mi not in (0, n_mod // 2, n_mod - 1):
                    continue             # quick tier: multi-line layouts on three of the modules only
                params = "ns: int, al: bool, fa: int, fb: int, nl: bool"
                pre = ["0 <= ns <= 4", "0 <= fa <= %d" % forms, "0 <= fb <= %d" % forms]
                conc = ["ORDER = %r" % (order,), "mi = %d" % mi, "ns = conc(ns, 4)", "al = cb(al)", "fa = conc(fa, %d)" % forms,
                        "fb = conc(fb, %d)" % forms, "nl = cb(nl)", "lay = %d" % lay, "join = %d" % join]
                out.append(mk("C19.module%d.lay%d.join%d" % (mi, lay, join), params, BODY.format(conc="\n".join(conc)),
                              covers=("rewritten",), pre=pre, timeout=600, functions=FUNCS, bounds=BOUNDS, cover_timeout=60,
                              meta={"no_deepen": True}))
    out.append(mk("C19.entries", "i: int, alias: bool", ENTRY.format(n=n_entries - 1), covers=("rewritten",),
                  pre=["0 <= i <= %d" % (n_entries - 1)], timeout=300, functions=FUNCS, bounds=BOUNDS, meta={"no_deepen": True}))
    return out
