"""C06 - repr(schema) is DSL source that rebuilds an equal schema (menu-bounded, solver as enumerator).

`eval` is a C boundary and the representor has no data-dependent branch, so every parameter comes from a
small menu chosen to stress quoting, sign, zero bounds, key kinds and nesting; presence flags, len-form
selectors and menu indices are solver variables, and the solver enumerates the finite product exhaustively.
Opaque formatting is OFF here (text is the subject).
"""
from engine.hgen import mk

ASSUMPTIONS = [
    "menu-bounded: parameters from the R_* menus in engine/hlib.py (ints -1/0/2/10**20, floats incl. -0.0, 1e-07, 1e22, "
    "1e300, strings with quotes/backslash/newline/non-ASCII, bytes, 9 dict key kinds incl. tuples/None/bool/float, "
    "len bounds incl. 0); finite floats only; no aliases / custom types (per the property)",
    "evaluation environment: schema, optional, UUID, datetime (the module)",
    "trusted: Python's own repr/eval round trip for literals",
]
BOUNDS = "finite product of menus per harness, enumerated exhaustively by the solver (see per-harness path counts)"
FUNCS = ("representation/_representor.py:Representor.visit_*", "representation/__init__.py:represent",
         "declaration/_schema_facade.py", "declaration/types/*.py:__call__/refinements", "validation/__init__.py:eq")

BODY = """
{conc}
with notrace():      # from here on everything is concrete (every parameter is a menu member chosen above)
    try:
        s = {build}
        why = roundtrip_problem(s)
    except DeclarationError:
        why = None
if why is None:
    raise IgnoreAttempt("declaration rejected")
return (why == ""), (why or "roundtrip")
"""
H = []


def rt(name, params, build, pre, timeout=120):
    import re
    conc = []
    for p in pre:
        m = re.match(r"0 <= (\w+) <= (\d+)", p)
        conc.append("%s = conc(%s, %s)" % (m.group(1), m.group(1), m.group(2)))
    for prm in params.split(","):
        nm, ty = [x.strip() for x in prm.split(":")]
        if ty == "bool":
            conc.append("%s = cb(%s)" % (nm, nm))
    H.append(mk("C06." + name, params, BODY.format(build=build, conc="\n".join(conc)), covers=("roundtrip",), pre=pre,
                timeout=timeout, opaque=False, functions=FUNCS, bounds=BOUNDS, cover_timeout=60))


def rng(*pairs):
    return ["0 <= %s <= %d" % (n, hi) for n, hi in pairs]


rt("int", "i: int, j: int, k: int",
   "opt_apply(opt_apply(opt_apply(schema.int, '__call__', pick(R_INT, i)), 'min', pick(R_INT, j)), 'max', pick(R_INT, k))",
   rng(("i", 4), ("j", 4), ("k", 4)))
rt("float", "i: int, j: int, k: int, l: int",
   "opt_apply(opt_apply(opt_apply(opt_apply(schema.float, '__call__', pick(R_FLOATV, i)), 'min', pick(R_FMIN, j)), 'max', pick(R_FMAX, k)), 'precision', pick(R_PREC, l))",
   rng(("i", 4), ("j", 2), ("k", 3), ("l", 2)))
rt("str.novalue", "lf: int, n: int, m: int, a: int, b: int",
   "opt_apply(opt_apply(len_apply(schema.str, lf, pick(R_N, n), pick(R_M, m)), 'alphabet', pick(R_ALPHA, a)), 'contains', pick(R_SUB, b))",
   rng(("lf", 4), ("n", 3), ("m", 3), ("a", 3), ("b", 3)), timeout=200)
rt("str.novalue.rev", "lf: int, n: int, m: int, a: int, b: int",
   "len_apply(opt_apply(opt_apply(schema.str, 'contains', pick(R_SUB, b)), 'alphabet', pick(R_ALPHA, a)), lf, pick(R_N, n), pick(R_M, m))",
   rng(("lf", 4), ("n", 3), ("m", 3), ("a", 3), ("b", 3)), timeout=200)
rt("str.regex", "v: int, p: int", "opt_apply(opt_apply(schema.str, '__call__', pick(R_STRV, v)), 'regex', pick(R_PAT, p))",
   rng(("v", 5), ("p", 3)))
rt("str.value", "v: int, lf: int, n: int, m: int, a: int, b: int",
   "opt_apply(opt_apply(len_apply(schema.str(pick(R_STRV[1:], v)), lf, pick(R_N, n), pick(R_M, m)), 'alphabet', pick(R_ALPHA, a)), 'contains', pick(R_SUB, b))",
   rng(("v", 4), ("lf", 4), ("n", 3), ("m", 3), ("a", 3), ("b", 3)), timeout=300)
rt("scalars", "t: int, i: int, j: int",
   "pick((lambda: schema.none, lambda: opt_apply(schema.bool, '__call__', pick((Nil, True, False), i)), "
   "lambda: opt_apply(schema.bytes, '__call__', pick(R_BYTES, i)), lambda: opt_apply(schema.uuid4, '__call__', pick((Nil,) + UUIDS4, i)), "
   "lambda: opt_apply(schema.datetime, '__call__', pick((Nil,) + DATETIMES, i)), lambda: opt_apply(schema.date, '__call__', pick((Nil,) + DATES, i))), t)()",
   rng(("t", 5), ("i", 3)))
rt("list", "f: int, lf: int, n: int, m: int", "len_apply(r_list_inner(f), lf, pick(R_N, n), pick(R_M, m))",
   rng(("f", 9), ("lf", 4), ("n", 3), ("m", 3)), timeout=300)
rt("dict.2keys", "i: int, j: int, oi: bool, oj: bool, rel: bool, x: int, y: int",
   "schema.dict(dict([((optional(pick(R_KEYS, i)) if oi else pick(R_KEYS, i)), r_value_schema(x)), "
   "((optional(pick(R_KEYS, j)) if oj else pick(R_KEYS, j)), r_value_schema(y))] + ([(..., ...)] if rel else [])))",
   rng(("i", 8), ("j", 8), ("x", 2), ("y", 1)), timeout=300)
rt("dict.values", "o: bool, rel: bool, x: int, y: int, z: int",
   "schema.dict(dict([((optional('a') if o else 'a'), r_value_schema(x)), ((1, 2), r_value_schema(y)), (optional(None), r_value_schema(z))] + ([(..., ...)] if rel else [])))",
   rng(("x", 7), ("y", 7), ("z", 3)), timeout=300)
rt("dict.small", "k: int, rel: bool", "pick((lambda: schema.dict, lambda: schema.dict({}), lambda: schema.dict({...: ...}), "
   "lambda: schema.dict({'a': schema.dict({})}), lambda: schema.dict({optional('a'): schema.dict({...: ...}), ...: ...})), k)()",
   rng(("k", 4)))
rt("any", "n: int, x: int, y: int, z: int",
   "pick((lambda: schema.any, lambda: schema.any(r_value_schema(x)), lambda: schema.any(r_value_schema(x), r_value_schema(y)), "
   "lambda: schema.any(r_value_schema(x), r_value_schema(y), r_value_schema(z)), lambda: r_value_schema(x) | r_value_schema(y)), n)()",
   rng(("n", 4), ("x", 7), ("y", 7), ("z", 3)), timeout=300)
rt("add.make_required", "x: int, y: int, o: bool, r1: bool, r2: bool, mk_: int",
   "pick((lambda d: d, lambda d: make_required(d), lambda d: make_required(d, ['a']), lambda d: make_required(d, [])), mk_)("
   "schema.dict(dict([((optional('a') if o else 'a'), r_value_schema(x))] + ([(..., ...)] if r1 else []))) + "
   "schema.dict(dict([(optional((1, 2)), r_value_schema(y)), ('b', schema.none)] + ([(..., ...)] if r2 else []))))",
   rng(("x", 7), ("y", 3), ("mk_", 3)), timeout=300)
rt("nested.indent", "x: int, y: int, f: int, o: bool",
   "schema.dict({'l': schema.list([schema.dict({(optional('q\\'') if o else 'q\\''): schema.list([r_value_schema(x), ...]), 'z': r_list_inner(f)}), ...]), "
   "'a': schema.any(schema.dict({'d': r_value_schema(y)}), schema.list(schema.dict({'e': schema.list([])})))})",
   rng(("x", 7), ("y", 7), ("f", 9)), timeout=300)


def harnesses(tier, seed, active_kf=()):
    return list(H)
