"""C05 - substitution only narrows a schema, never widens it."""
from harness.subst import harnesses_for

ASSUMPTIONS = [
    "skeletons of harness/subst.py; v (substituted) and w (probe) have independent symbolic leaves",
    "relational oracle: the real validator on R = S % v and on S; R accepts w must imply S accepts w, and every "
    "value generated from R (TapeRandom stub) must be accepted by S",
]

POST = """
acc = ok_validate(R, w)
if acc and not ok_validate(S, w):
    return False, "result accepts a value the original rejects"
with gen_env((d0, d1, d2, d3), {chars}, (), small=True) as t:
    g = fake(R)
if not ok_validate(S, g):
    return False, "value generated from the result is rejected by the original"
return True, ("waccept" if acc else "subst")
"""


def _covers(c):
    return tuple(x for x in c if x != "subst") + (("waccept",) if "subst" in c else ())


harnesses = harnesses_for("C05", POST, _covers)


def extra_checks(tier, seed, replay_dir, active_kf=()):
    """E2: exact IEEE-754 execution of the float branch (engine/fpsym.py) - see harness/fp_extra.py"""
    from harness import fp_extra
    return fp_extra.run("C05", tier, replay_dir, active_kf)
