"""C11 - constraint refinements can be declared in any order.

One harness per (type, optional fixed value, set of 2-3 distinct non-value refinements); the harness
applies ALL permutations of the set with the same symbolic parameters and compares the outcomes.
"""
import itertools

from engine.hgen import mk

ASSUMPTIONS = [
    "sets of 2 or 3 distinct refinements (singletons have a single order); parameters symbolic: ints unbounded, "
    "floats all doubles except NaN, strings <= 2 chars; regex patterns from a 3-element menu; with a fixed str "
    "value, value and alphabet come from 3-element menus (the declaration-time alphabet check hashes characters)",
    "outcome of an order = DeclarationError or the resulting schema; any other exception is a counterexample",
    "list has a single non-value refinement (len), so there is nothing to permute for it",
]
BOUNDS = "all permutations of every 2- and 3-subset of the refinements of int, float, str; with and without a fixed value"

BODY = """
base = {base}
refs = ({refs})
outs = []
for order in {perms}:
    s = base
    try:
        for i in order:
            s = refs[i](s)
    except DeclarationError:
        s = None
    outs.append(s)
nerr = 0
for s in outs:
    if s is None:
        nerr += 1
if nerr == len(outs):
    return True, "allerr"
if nerr != 0:
    return False, "some orders are rejected, others accepted"
for s in outs[1:]:
    if not (outs[0] == s) or (outs[0] != s):
        return False, "orders succeed with unequal schemas"
return True, "allok"
"""

FUNCS = ("declaration/types/_str_schema.py", "declaration/types/_int_schema.py", "declaration/types/_float_schema.py")
PATS = '("a", "^b+$", "[0-9]")'


def _mk(name, params, base, refs, pre, covers, timeout=60):
    n = len(refs)
    perms = repr(tuple(itertools.permutations(range(n))))
    body = BODY.format(base=base, refs=", ".join("lambda s: " + r for r in refs) + ",", perms=perms)
    return mk("C11." + name, params, body, covers=covers, pre=pre, timeout=timeout, functions=FUNCS, bounds=BOUNDS)


FLOAT_MENU = """
import itertools as _it
VALS = (3.144, 3.146, 0.25, 2.675, -0.5, 0.0)
BNDS = (3.142, 3.148, 3.14, 3.15, 0.2, 0.3, 0.25, 2.67, 2.68, -0.5, 0.0)
vi, ai, bi, pi = conc(vi, 5), conc(ai, 10), conc(bi, 10), conc(pi, 2)
with notrace():
    refs = [lambda s: s.min(BNDS[ai]), lambda s: s.max(BNDS[bi]), lambda s: s.precision((1, 2, 15)[pi])]
    outs = []
    for order in _it.permutations(range(3)):
        s = schema.float(VALS[vi])
        try:
            for i in order:
                s = refs[i](s)
        except DeclarationError:
            s = None
        outs.append(s)
    nerr = sum(1 for s in outs if s is None)
    if nerr == len(outs):
        res = (True, "allerr")
    elif nerr != 0:
        res = (False, "some orders are rejected, others accepted")
    else:
        res = (all(outs[0] == s for s in outs[1:]), "allok")
return res
"""


def harnesses(tier, seed, active_kf=()):
    out = []
    out.append(mk("C11.float.menu.value.min.max.precision", "vi: int, ai: int, bi: int, pi: int", FLOAT_MENU, covers=("allok", "allerr"),
                  pre=["0 <= vi <= 5", "0 <= ai <= 10", "0 <= bi <= 10", "0 <= pi <= 2"], timeout=200, functions=FUNCS, bounds=BOUNDS))
    # ---- int
    for val in (False, True):
        base = "schema.int(x)" if val else "schema.int"
        params = ("x: int, " if val else "") + "a: int, b: int"
        out.append(_mk("int.min.max" + (".value" if val else ""), params, base, ["s.min(a)", "s.max(b)"], [],
                       ("allok", "allerr") if val else ("allok",)))
    # ---- float
    FR = {"min": ("s.min(a)", "a: float", "a == a"), "max": ("s.max(b)", "b: float", "b == b"),
          "precision": ("s.precision(p)", "p: int", "True")}
    for val in (False, True):
        for k in (2, 3):
            for combo in itertools.combinations(sorted(FR), k):
                base = "schema.float(x)" if val else "schema.float"
                params = ", ".join((["x: float"] if val else []) + [FR[c][1] for c in combo])
                pre = (["x == x"] if val else []) + [FR[c][2] for c in combo]
                covers = ("allok", "allerr") if (val or "precision" in combo) else ("allok",)
                out.append(_mk("float." + ".".join(combo) + (".value" if val else ""), params, base,
                               [FR[c][0] for c in combo], pre, covers))
    # ---- str
    LENS = {"len": ("s.len(n)", "n: int"), "minlen": ("s.len(n, ...)", "n: int"), "maxlen": ("s.len(..., n)", "n: int"),
            "range": ("s.len(n, m)", "n: int, m: int")}
    OTH = {"alphabet": ("s.alphabet(al)", "al: str", "len(al) <= 2"), "contains": ("s.contains(sub)", "sub: str", "len(sub) <= 2"),
           "regex": ("s.regex(pick(%s, pi))" % PATS, "pi: int", "0 <= pi <= 2")}
    for val in (False, True):
        sets = []
        for k in (2, 3):
            for combo in itertools.combinations(["LEN"] + sorted(OTH), k):
                if "LEN" in combo:
                    for lf in LENS:
                        sets.append(tuple(lf if c == "LEN" else c for c in combo))
                else:
                    sets.append(combo)
        for combo in sets:
            refs, params, pre = [], [], []
            if val:
                if "alphabet" in combo:
                    base = 'schema.str(pick(("", "a", "ab"), xi))'
                    params.append("xi: int")
                    pre.append("0 <= xi <= 2")
                else:
                    base = "schema.str(x)"
                    params.append("x: str")
                    pre.append("len(x) <= 2")
            else:
                base = "schema.str"
            for c in combo:
                if c in LENS:
                    refs.append(LENS[c][0])
                    params.append(LENS[c][1])
                elif c == "alphabet" and val:
                    refs.append('s.alphabet(pick(("", "a", "ba"), ai))')
                    params.append("ai: int")
                    pre.append("0 <= ai <= 2")
                else:
                    refs.append(OTH[c][0])
                    params.append(OTH[c][1])
                    pre.append(OTH[c][2])
            covers = []
            if "regex" in combo or val:
                covers.append("allerr")
            if "regex" not in combo:
                covers.append("allok")
            out.append(_mk("str." + ".".join(combo) + (".value" if val else ""), ", ".join(params), base, refs, pre,
                           tuple(covers), timeout=90))
    return out
