"""C18 - rollout is the inverse of flattening separator-joined keys (menu-bounded, solver as enumerator).

Dict insertion hashes keys, so keys and separators come from menus selected by symbolic indices; the tree shape
is fixed per harness; optional placement, the top-level ...: ... entry and the order of the flat keys are solver
variables; leaf payloads are opaque objects compared by identity.
"""
from engine.hgen import mk

ASSUMPTIONS = [
    "key assignments from RO_KEYSETS (quick 6 / thorough 10 assignments over 8 strings incl. '', 2-char keys, a key with a "
    "space, non-ASCII, equal keys at different levels), separators from RO_SEPS (quick 4 / thorough 6, incl. multi-character "
    "and letter separators) - engine/hlib.py",
    "precondition (part of the property): sibling keys distinct, keys separator-free and flattening injective: "
    "(k1 + sep + k2).split(sep) == [k1, k2] for every parent/child pair",
    "tree shapes: 6 shapes up to depth 4 and fan-out 3; optional markers on any subset of leaves; flat keys in any order "
    "(3 selection indices); ...: ... entry at any position",
    "leaf payloads: distinct opaque objects, compared with `is`",
]
BOUNDS = "6 tree shapes (depth <= 4, fan-out <= 3) x key menu x separator menu x optional flags x flat-key order"
FUNCS = ("utils/_rollout.py:rollout",)

BODY = """
{conc}
with notrace():
    L = [("leaf", Opaque(), o0), ("leaf", Opaque(), o1), ("leaf", Opaque(), o2), ("leaf", Opaque(), o3)]
    K = RO_KEYSETS[ks]
    tree = {tree}
    why = rollout_problem(tree, RO_SEPS[si], rel, (s0, s1, s2))
if why is None:
    raise IgnoreAttempt("keys not separator-free / not injective")
return (why == ""), (why or "roundtrip")
"""

SHAPES = {
    "d2": ("[(K[0], L[0]), (K[1], [(K[2], L[1]), (K[3], L[2])])]", 4),
    "d3": ("[(K[0], [(K[1], [(K[2], L[0])]), (K[3], L[1])]), (K[4], L[2])]", 5),
    "d4": ("[(K[0], [(K[1], [(K[2], [(K[3], L[0])])])]), (K[4], L[1])]", 5),
    "wide": ("[(K[0], [(K[1], L[0]), (K[2], L[1]), (K[3], L[2])]), (K[4], [(K[1], L[3])])]", 5),
    "flat": ("[(K[0], L[0]), (K[1], L[1]), (K[2], L[2])]", 3),
    "mixed": ("[(K[0], [(K[1], L[0]), (K[2], [(K[3], L[1])])]), (K[1], [(K[0], L[2])]), (K[4], L[3])]", 5),
}


def harnesses(tier, seed, active_kf=()):
    out = []
    thorough = tier == "thorough"
    for name, (tree, nk) in SHAPES.items():
        ksmax = 9 if thorough else 5
        smax = 5 if thorough else 3
        params = ["ks: int", "rel: bool", "o0: bool", "o1: bool", "o2: bool", "o3: bool", "s0: int", "s1: int", "s2: int"]
        s2max = 1 if thorough else 0
        pre = ["0 <= ks <= %d" % ksmax, "0 <= s0 <= 3", "0 <= s1 <= 2", "0 <= s2 <= %d" % s2max]
        conc = ["ks = conc(ks, %d)" % ksmax, "rel = cb(rel)", "o0 = cb(o0)", "o1 = cb(o1)", "o2 = cb(o2)",
                "o3 = cb(o3)", "s0 = conc(s0, 3)", "s1 = conc(s1, 2)", "s2 = conc(s2, %d)" % s2max]
        for si in range(smax + 1):     # one harness per separator (parallelism)
            out.append(mk("C18.%s.sep%d" % (name, si), ", ".join(params), BODY.format(conc="\n".join(conc + ["si = %d" % si]), tree=tree),
                          covers=("roundtrip",), pre=pre, timeout=300 if not thorough else 1500, functions=FUNCS, bounds=BOUNDS,
                          cover_timeout=60))
    return out
