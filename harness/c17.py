"""C17 - seeded generation is reproducible (function of the seed and the schemas only).

(a) hash-seed independence: the same draw tape with two solver-chosen set iteration orders (engine/hash_order.py
    models PYTHONHASHSEED) must give equal values; counterexamples are replayed in fresh interpreters with
    different PYTHONHASHSEED.
(b) no hidden state: the same tape twice in one process, with an unrelated fake() in between, gives equal values.
"""
import ast
import glob
import os

from engine.hgen import mk

ASSUMPTIONS = [
    "the seed is modelled by the draw tape: equal seeds <=> equal tapes (stdlib random is deterministic given its seed)",
    "hash randomisation is observable only through the iteration order of builtin set/frozenset objects (incl. results of "
    "dict-view operators) iterated by code under d42/: GET_ITER and C-level calls (str.join, list, tuple, ...) receiving "
    "such a set are intercepted and the order is chosen by the solver (<= 3 order decisions per run, sets <= 4 elements: "
    "the regex 'letters' alphabet is reduced to 'abcd')",
    "a character choice from an alphabet of <= 8 characters is a drawn *index* (not an abstract member), so that the order "
    "of a hash-ordered candidate string is observable; larger alphabets keep the abstract-member stub",
    "schemas are concrete members of a catalogue (the schema quantifier is enumerated); RNG outcomes and set orders are symbolic",
    "excluded by the property: unfixed uuid4 / datetime / date",
    "(b) the unrelated operation in between is a solver-chosen member of an 8-entry menu (7 schemas to fake() on a fixed tape, "
    "or the construction of a RegexGenerator with its own alphabets plus a set_seed call)",
    "(c) the real Random().set_seed path is exercised only in the replay",
]
BOUNDS = "catalogue of 30 schema expressions; tape 6 ints / 3 chars; 3 order decisions per run; 8 interpreters in replay"
FUNCS = ("generation/_regex_generator.py:RegexGenerator._generate_not_in/_generate_in", "generation/_generator.py:Generator.visit_*",
         "generation/_random.py", "declaration/types/_dict_schema.py:DictSchema.__add__ (key order)", "utils/_make_required.py")
TAPE = "d0: int, d1: int, d2: int, d3: int, d4: int, d5: int, c0: str, c1: str, c2: str"
TPRE = ["len(c0) == 1 and len(c1) == 1 and len(c2) == 1"]

HASH = """
EXPR = {expr!r}
ok = same_under_hash_orders(EXPR, {{}}, (d0, d1, d2, d3, d4, d5), (c0, c1, c2), (o0, o1, o2), (p0, p1, p2))
return ok, "compared"
"""

STATE = """
with notrace():
    reset_module_state()
S = {expr}
OTHER = pick(({others}), oi)
from d42.generation import Random as _Random, RegexGenerator as _RegexGenerator
REGEX_GEN._alphabet["letters"], saved = SMALL_LETTERS, REGEX_GEN._alphabet["letters"]
try:
    with gen_env((d0, d1, d2, d3, d4, d5), (c0, c1, c2), (u0,), small=False, index_small=True) as t:
        a = fake(S)
    with gen_env((3, 3, 3, 3, 3, 3), (), (), small=False, first_char=True) as t2:
        if OTHER is None:      # an unrelated object construction with its own settings
            _RegexGenerator(_Random(), alphabet={{"digits": "7", "letters": "z", "word": "_"}}, max_repeat=99)
            _Random().set_seed(12345)
        else:
            fake(OTHER)
    with gen_env((d0, d1, d2, d3, d4, d5), (c0, c1, c2), (u0,), small=False, index_small=True) as t:
        b = fake(S)
finally:
    REGEX_GEN._alphabet["letters"] = saved
return (a == b), "compared"
"""

NEGATED = ['fake(schema.str.regex("[^a]"))', 'fake(schema.str.regex("x[^ab]"))', 'fake(schema.str.regex("[^a-b]{2}"))']
HASH_EXPRS = [
    'fake(schema.str.regex("a.c"))', 'fake(schema.str.regex("[a-c]+x"))', 'fake(schema.str.regex("(ab|c)d?"))', 'fake(schema.str.regex("\\\\w\\\\d"))',
    'fake(schema.dict({"a": schema.int.min(0).max(9), "b": schema.int.min(0).max(9), "c": schema.bool}))',
    'fake(schema.dict({"a": schema.int.min(0).max(9)}) + schema.dict({"b": schema.int.min(0).max(9), "c": schema.int.min(0).max(9), "d": schema.bool}))',
    'fake(schema.dict({"k": schema.int.min(0).max(9), ...: ...}) + schema.dict({"x": schema.int.min(0).max(9), "y": schema.int.min(0).max(9)}))',
    'fake(make_required(schema.dict({optional("a"): schema.int.min(0).max(9), optional("b"): schema.bool})))',
    'fake(make_required(schema.dict({optional("a"): schema.int.min(0).max(9), optional("b"): schema.int.min(0).max(9)}), {"a", "b"}))',
    'fake(schema.any(schema.int.min(0).max(9), schema.bool, schema.none))',
    'fake(schema.list(schema.int.min(0).max(9)).len(2))', 'fake(schema.str.alphabet("ab").len(2))', 'fake(schema.str.contains("x").len(3))',
    'fake(substitute(schema.dict({"a": schema.int, "b": schema.int.min(0).max(9), "c": schema.int.min(0).max(9)}), {"a": 1}))',
    'fake(from_native({"a": 1, "b": [1, 2]}))', 'fake(schema.dict({"o": schema.dict(rollout({"o.a": schema.int.min(0).max(9), "o.b": schema.int.min(0).max(9)})["o"])}))',
    '[fake(schema.int.min(0).max(9)), fake(schema.bool), fake(schema.str.len(1))]', 'fake(schema.bytes)',
]
STATE_EXPRS = ['schema.str.regex("\\\\d\\\\w.")', 'schema.float.min(0.11).max(0.19).precision(1)', 'schema.str.regex("a*")', 'schema.str.regex("b+c")', 'schema.str.regex("[a-c]{1,}")', 'schema.str.len(..., 2)',
               'schema.list(schema.int.min(0).max(9)).len(..., 2)', 'schema.dict({"a": schema.int.min(0).max(9), "b": schema.bool})',
               'schema.any(schema.int.min(0).max(3), schema.none)', 'schema.int', 'schema.bytes']
OTHERS = ['None', 'schema.str.regex("a{40,}")', 'schema.str.regex("[0-9]{33,}x*")', 'schema.list(schema.int).len(3)', 'schema.str.len(5)',
          'schema.dict({"a": schema.any(schema.int, schema.str)})', 'schema.int.min(5)', 'schema.str.regex("(a|b)+")']


def scan_unmodelled():
    """Constructs whose hash-order dependence the interceptor cannot see (set literals / comprehensions are real sets and
    ARE intercepted when iterated; what is not modelled: hash()/id() of str used for ordering, sorted(key=hash))."""
    hits = []
    root = os.environ.get("VERIF_REPO") or "/repo"
    for path in sorted(glob.glob(root + "/d42/**/*.py", recursive=True)):
        try:
            tree = ast.parse(open(path).read())
        except SyntaxError:
            continue
        for node in ast.walk(tree):
            if isinstance(node, ast.Call) and isinstance(node.func, ast.Name) and node.func.id in ("hash", "id") \
                    and "generation" in path:
                hits.append("%s:%d %s()" % (path, node.lineno, node.func.id))
    return hits


def harnesses(tier, seed, active_kf=()):
    out = []
    exprs = list(HASH_EXPRS)
    if "F10" not in active_kf:
        exprs += NEGATED
    for i, ex in enumerate(exprs):
        out.append(mk("C17.hash.%02d" % i, TAPE + ", o0: int, o1: int, o2: int, p0: int, p1: int, p2: int", HASH.format(expr=ex),
                      covers=("compared",), pre=TPRE, timeout=90, functions=FUNCS, bounds=BOUNDS, meta={"expr": ex},
                      kf_applied=()))
    for i, ex in enumerate(STATE_EXPRS):
        out.append(mk("C17.state.%02d" % i, TAPE + ", u0: float, oi: int",
                      STATE.format(expr=ex, others=", ".join(OTHERS)), covers=("compared",), pre=TPRE + ["0 <= oi <= %d" % (len(OTHERS) - 1), "u0 == u0"],
                      timeout=120, functions=FUNCS, bounds=BOUNDS, meta={"expr": ex}))
    return out


def extra_evidence():
    return {"hash_order_expressions": HASH_EXPRS, "state_expressions": STATE_EXPRS, "in_between": OTHERS,
            "unmodelled_constructs_in_generation": scan_unmodelled()}
