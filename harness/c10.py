"""C10 - a declaration either fails cleanly (DeclarationError, receiver unchanged) or yields a
self-consistent schema; re-declaring a property is rejected.

One harness per call chain (type, sequence of refinement methods with their arity).  Every argument
is a symbolic Union[None, bool, int, float, str] or - selected by a symbolic index - a member of a
menu of wrongly-typed objects (Ellipsis, Nil, [], {}, a schema, an opaque object, tuple, bytes).
"""
import itertools

from engine.hgen import mk

ASSUMPTIONS = [
    "call chains over every refinement method of every type: quick = all chains of length <= 2 (+ VERIF_SEED-selected "
    "chains of length 3), thorough = all of length <= 3",
    "arguments: symbolic Union[None,bool,int,float,str] (str <= 2 chars) or a member of ARG_MENU chosen by a symbolic "
    "index; regex patterns, fixed str values, list/dict/any call arguments come from menus (re.compile, character "
    "hashing and container construction are C boundaries) - see engine/hlib.py",
    "in a 2-argument len() call at most one argument is wrongly typed at a time; the other ranges over int/bool/Ellipsis",
    "float.menu3: every order of (fixed value, precision, min|max) with values/bounds from menus chosen around rounding "
    "boundaries - rounding of a symbolic double is out of CrossHair's reach, so this part is menu-bounded",
    "receiver unchanged = same registry keys and identical value objects before/after a raising call",
    "fixed value conforms = validate(result, result.props.value) clean; for lists: fully fixed element list",
]
BOUNDS = "chains <= 2 (quick) / <= 3 (thorough) over 11 types x their refinement methods; argument menus of 6-17 members"

SYM = "Union[None, bool, int, float, str]"
NUM = "Union[None, bool, int, float]"
PRELUDE = "from typing import Union\n"

METHODS = {
    "int": [("call", 1), ("min", 1), ("max", 1)],
    "float": [("call", 1), ("min", 1), ("max", 1), ("precision", 1)],
    "str": [("call", 1), ("len", 1), ("len", 2), ("alphabet", 1), ("contains", 1), ("regex", 1)],
    "list": [("call", 1), ("len", 1), ("len", 2)],
    "dict": [("call", 1)], "any": [("call", 1)], "bool": [("call", 1)], "bytes": [("call", 1)],
    "uuid4": [("call", 1)], "datetime": [("call", 1)], "date": [("call", 1)],
}
FUNCS = tuple("declaration/types/_%s_schema.py" % t for t in ("int", "float", "str", "list", "dict", "any", "bool", "bytes"))


def _args(typ, meth, arity, idx, wild):
    """returns (param decls, pre, arg expressions).  wild=False: arguments range over the domain the
    method ACCEPTS by type (so the call can only be rejected for semantic reasons); wild=True: the full
    domain incl. wrongly typed objects.  A chain stops at its first rejected call, so 'all earlier calls
    accepted-domain, last call wild' over all chains is complete for the chain bound."""
    params, pre, exprs = [], [], []
    if not wild:
        a = "a%d_0" % idx
        if meth in ("min", "max", "call") and typ == "int" or meth == "precision" or (meth == "len" and arity == 1):
            params += ["%s: int" % a, "f%d_0: int" % idx]
            exprs.append("bi(%s, f%d_0)" % (a, idx))
        elif typ == "float":
            params.append("%s: float" % a)
            exprs.append(a)
        elif meth == "len":
            b, e = "a%d_1" % idx, "e%d" % idx
            params += ["%s: int" % a, "%s: int" % b, "%s: int" % e, "f%d_0: int" % idx]
            pre.append("0 <= %s <= 2" % e)
            exprs += ["(... if %s == 1 else bi(%s, f%d_0))" % (e, a, idx), "(... if %s == 2 else %s)" % (e, b)]
        elif meth in ("alphabet", "contains"):
            params.append("%s: str" % a)
            pre.append("len(%s) <= 2" % a)
            exprs.append(a)
        elif meth == "regex":
            params.append("m%d_0: int" % idx)
            pre.append("0 <= m%d_0 <= 2" % idx)
            exprs.append("pick(REGEX_MENU, m%d_0)" % idx)
        elif typ == "str":
            params.append("m%d_0: int" % idx)
            pre.append("0 <= m%d_0 <= 4" % idx)
            exprs.append("pick(STRVAL_MENU, m%d_0)" % idx)
        elif typ == "bool":
            params.append("%s: bool" % a)
            exprs.append(a)
        elif typ == "bytes":
            params.append("%s: bytes" % a)
            pre.append("len(%s) <= 2" % a)
            exprs.append(a)
        elif typ in ("uuid4", "datetime", "date"):
            menu = {"uuid4": "UUIDS4", "datetime": "DATETIMES", "date": "DATES + DATETIMES"}[typ]
            params.append("m%d_0: int" % idx)
            exprs.append("pick(%s, m%d_0)" % (menu, idx))
        else:
            wild = True   # list / dict / any: the call argument always comes from a menu
    if wild and arity == 2:
        # two-argument len(): one argument (solver-chosen by w) ranges over the full wild domain, the other over
        # what the method accepts by type (int / bool / Ellipsis)
        w, e, a, m, b, f = ["%s%d" % (x, idx) for x in ("w", "e", "a", "m", "b", "f")]
        params += ["%s: int" % w, "%s: int" % e, "%s: %s" % (a, SYM), "%s: int" % m, "%s: int" % b, "%s: int" % f]
        pre += ["0 <= %s <= 1" % w, "0 <= %s <= 1" % e]
        exprs.append("(arg_of(%s, %s) if %s == 0 else (... if %s == 1 else bi(%s, %s)))" % (a, m, w, e, b, f))
        exprs.append("(arg_of(%s, %s) if %s == 1 else (... if %s == 1 else bi(%s, %s)))" % (a, m, w, e, b, f))
        wild = False
    if wild:
        for j in range(arity):
            a, m = "a%d_%d" % (idx, j), "m%d_%d" % (idx, j)
            if meth == "regex":
                params += ["%s: %s" % (a, NUM), "%s: int" % m]
                exprs.append("arg_of(%s, %s, REGEX_MENU)" % (a, m))
            elif meth == "call" and typ == "str":
                params += ["%s: %s" % (a, NUM), "%s: int" % m]
                exprs.append("arg_of(%s, %s, STRVAL_MENU + ARG_MENU)" % (a, m))
            elif meth == "call" and typ == "list":
                params += ["%s: int" % m]
                pre.append("0 <= %s < %d" % (m, 17))
                exprs.append("pick(LIST_MENU, %s)[0]" % m)
            elif meth == "call" and typ == "dict":
                params += ["%s: int" % m]
                pre.append("0 <= %s < %d" % (m, 13))
                exprs.append("pick(DICT_MENU, %s)" % m)
            elif meth == "call" and typ == "any":
                params += ["%s: int" % m]
                pre.append("0 <= %s < %d" % (m, 8))
                exprs.append("*pick(ANY_MENU, %s)" % m)
            elif meth == "call" and typ in ("uuid4", "datetime", "date"):
                params += ["%s: %s" % (a, SYM), "%s: int" % m]
                exprs.append("arg_of(%s, %s, UUID_VALUES + DT_VALUES)" % (a, m))
            elif meth == "call" and typ == "bytes":
                params += ["%s: Union[None, bool, int, str, bytes]" % a, "%s: int" % m]
                exprs.append("arg_of(%s, %s)" % (a, m))
            else:
                params += ["%s: %s" % (a, SYM), "%s: int" % m]
                exprs.append("arg_of(%s, %s)" % (a, m))
    return params, pre, exprs


def chain_harness(typ, chain, active_kf, timeout=60):
    params, pre, lines = [], [], []
    lines.append("cur = schema.%s" % typ)
    lines.append("fixed_list = None")
    for i, (meth, arity) in enumerate(chain):
        p, q, ex = _args(typ, meth, arity, i, wild=(i == len(chain) - 1))
        params += p
        pre += q
        call = "cur(%s)" % ", ".join(ex) if meth == "call" else "cur.%s(%s)" % (meth, ", ".join(ex))
        lines.append("fp = props_fp(cur)")
        lines.append("try:")
        lines.append("    nxt = %s" % call)
        lines.append("except DeclarationError:")
        lines.append("    if props_fp(cur) != fp:")
        lines.append("        return False, 'receiver changed by a rejected declaration'")
        lines.append("    return True, 'raised%d'" % i)
        lines.append("if props_fp(cur) != fp:")
        lines.append("    return False, 'receiver changed by a successful declaration'")
        if meth == "call" and typ == "list":
            lines.append("fixed_list = pick(LIST_MENU, m%d_0)[1]" % i)
        lines.append("cur = nxt")
    names = [m for m, _ in chain]
    if len(set(names)) != len(names):
        lines.append("return False, 're-declaring an already declared property was accepted'")
    else:
        lines.append("val = cur.props.get('value')")
        lines.append("if val is not Nil and not ok_validate(cur, val):")
        lines.append("    return False, 'fixed value does not conform to the returned schema'")
        lines.append("if fixed_list is not None and not ok_validate(cur, fixed_list):")
        lines.append("    return False, 'fully fixed element list does not conform to the returned schema'")
        lines.append("return True, 'ok'")
    # first call that can never succeed (already declared / incompatible with what was declared before)
    must = None
    for i, nm in enumerate(names):
        prev = names[:i]
        call_blocked = (nm == "call" and i > 0 and not (typ == "float" and all(x == "precision" for x in prev)))
        if nm in prev or call_blocked or (nm == "regex" and any(x in prev for x in ("len", "alphabet", "contains"))) \
                or (nm in ("len", "alphabet", "contains") and "regex" in prev):
            must = i
            break
    if must is None:
        covers = ["raised%d" % (len(chain) - 1), "ok"]
    else:
        covers = ["raised%d" % must]
    kf = {}
    if typ == "float" and "call" in names:
        ci = names.index("call")
        kf["F13"] = "not isinstance(a%d_0, float) or a%d_0 == a%d_0" % (ci, ci, ci)
    name = "C10.%s.%s" % (typ, ".".join("%s%d" % (m, a) if m == "len" else m for m, a in chain))
    return mk(name, ", ".join(params), "\n".join(lines), covers=covers, pre=pre, timeout=timeout, prelude=PRELUDE,
              functions=FUNCS, bounds=BOUNDS, kf=kf, active_kf=active_kf)


FLOAT_MENU = """
import itertools as _it
VALS = (3.144, 3.146, 0.25, 2.675, -0.5, 0.0, 1e-07)
BNDS = (3.142, 3.148, 3.14, 3.15, 0.2, 0.3, 0.25, 2.67, 2.68, -0.5, 0.0)
vi, bi, pi, oi, mm = conc(vi, 6), conc(bi, 10), conc(pi, 2), conc(oi, 5), conc(mm, 1)
with notrace():
    steps = [("call", VALS[vi]), ("precision", (1, 2, 15)[pi]), (("min", "max")[mm], BNDS[bi])]
    order = list(_it.permutations(range(3)))[oi]
    cur = schema.float
    tag = "ok"
    for k in order:
        name, arg = steps[k]
        try:
            cur = cur(arg) if name == "call" else getattr(cur, name)(arg)
        except DeclarationError:
            tag = "raised"
            break
    ok = True
    if tag == "ok":
        ok = ok_validate(cur, cur.props.value)
return ok, tag
"""


def harnesses(tier, seed, active_kf=()):
    import random
    out = []
    out.append(mk("C10.float.menu3", "vi: int, bi: int, pi: int, oi: int, mm: int", FLOAT_MENU, covers=("ok", "raised"),
                  pre=["0 <= vi <= 6", "0 <= bi <= 10", "0 <= pi <= 2", "0 <= oi <= 5", "0 <= mm <= 1"], timeout=200, functions=FUNCS,
                  bounds=BOUNDS))
    maxlen = 3 if tier == "thorough" else 2
    for typ, meths in METHODS.items():
        for n in range(1, maxlen + 1):
            for chain in itertools.product(meths, repeat=n):
                heavy = n >= 2 and chain[-1] == ("len", 2) and chain[-2] in (("call", 1), ("len", 2))
                if heavy and tier != "thorough":
                    continue   # menu x two-argument wild call: > 4000 paths, thorough tier only
                out.append(chain_harness(typ, chain, active_kf, timeout=(60 if n < 3 else 300) * (5 if heavy else 1)))
    if tier != "thorough":
        rnd = random.Random(seed)
        pool = [(t, c) for t in ("int", "float", "str", "list") for c in itertools.product(METHODS[t], repeat=3)
                if c[-1] != ("len", 2)]
        for typ, chain in rnd.sample(pool, 12):
            out.append(chain_harness(typ, chain, active_kf, timeout=200))
    return out
