"""C03 - every validation error is true and points at the offending sub-value.

Same skeletons as C02.  For every error returned by the real Validator (and by the
SubstitutorValidator subclass) the harness checks, with `error_problem` (engine/hlib.py):
the path resolves from the root to the very object the error reports, the stated fact is true
of it (from the error's own fields), the fields are the declared parameters of the schema node
at that position (where the position is unique), the sub-value really does not conform there,
and the rendered message names that path.
"""
from engine.hgen import mk
from harness.skeletons import PRELUDE, entries

ASSUMPTIONS = [
    "skeleton catalogue of harness/skeletons.py; all scalars symbolic within the stated length bounds",
    "identity (`is`) links error.actual_value to the sub-value reached by error.path; leaves are distinct "
    "solver objects, so sibling mix-ups are visible",
    "inside contains-lists and any-alternatives the governing schema node is not unique: there only the "
    "fact carried by the error's own fields is checked, not parameter provenance",
    "message clause: values are rendered opaquely (<sym>); only the path part of the message is checked",
]

BOUNDS = ("per harness: fixed schema/value shape; lists <= 4, strings <= 3, dict <= 3 keys, depth <= 3; "
          "validators: Validator and SubstitutorValidator")

BODY = """
spec = {spec}
try:
    S = build(spec)
except DeclarationError:
    raise IgnoreAttempt("declaration rejected")
val = {val}
r1 = validate(S, val)
why = errors_problem(spec, val, r1)
if why:
    return False, "validator: " + why
r2 = validate_subst(S, val)
why = errors_problem(spec, val, r2)
if why:
    return False, "substitutor-validator: " + why
n = len(r1.get_errors())
return True, ("noerr" if n == 0 else ("one" if n == 1 else "many"))
"""

FUNCS = ("validation/_validator.py:Validator.visit_*", "validation/_validator.py:Validator._validate_elements",
         "substitution/_validator.py:SubstitutorValidator.visit_list/visit_dict",
         "validation/_formatter.py:Formatter.format_*", "validation/errors/__init__.py")

# which skeletons can yield more than one error at once
MANY = {"int.minmax", "str.lenrange", "str.alpha.contains.len", "list.typed", "list.typed.len", "list.exact",
        "list.head", "list.tail", "list.body", "dict.strict", "dict.relaxed", "dict.intkeys",
        "nest.dict.list.dict", "any.in.list", "list.typed.maxlen"}


def harnesses(tier, seed, active_kf=()):
    out = []
    for e in entries():
        if e["tier"] == "thorough" and tier != "thorough":
            continue
        covers = []
        if "reject" in e["covers"]:
            covers.append("one")
            if e["name"] in MANY:
                covers.append("many")
        out.append(mk("C03." + e["name"], e["params"], BODY.format(spec=e["spec"], val=e["val"]),
                      covers=covers, pre=e["pre_light"], timeout=e["timeout"] * 1.5, functions=FUNCS,
                      prelude=PRELUDE, bounds=BOUNDS))
    return out


def extra_checks(tier, seed, replay_dir, active_kf=()):
    """E2: exact IEEE-754 execution of the float branch (engine/fpsym.py) - see harness/fp_extra.py"""
    from harness import fp_extra
    return fp_extra.run("C03", tier, replay_dir, active_kf)
