"""C03 - every validation error is true and points at the offending sub-value.

Same skeletons as C02.  For every error returned by the real Validator (and by the
SubstitutorValidator subclass) the harness checks, with `error_problem` (engine/hlib.py):
the path resolves from the root to the very object the error reports, the stated fact is true
of it (from the error's own fields), the fields are the declared parameters of the schema node
at that position (where the position is unique), the sub-value really does not conform there,
and the rendered message names that path.
"""
from engine.hgen import mk
from harness.skeletons import PRELUDE, entries

ASSUMPTIONS = [
    "skeleton catalogue of harness/skeletons.py; all scalars symbolic within the stated length bounds",
    "identity (`is`) links error.actual_value to the sub-value reached by error.path; leaves are distinct "
    "solver objects, so sibling mix-ups are visible",
    "inside contains-lists and any-alternatives the governing schema node is not unique: there only the "
    "fact carried by the error's own fields is checked, not parameter provenance",
    "ph.*: values with ... placeholders through the SubstitutorValidator (which skips them at list edges / as dict values): "
    "whatever it does report must be true and located",
    "message clause: values are rendered opaquely (<sym>); only the path part of the message is checked",
]

BOUNDS = ("per harness: fixed schema/value shape; lists <= 4, strings <= 3, dict <= 3 keys, depth <= 3; "
          "validators: Validator and SubstitutorValidator")

BODY = """
spec = {spec}
try:
    S = build(spec)
except DeclarationError:
    raise IgnoreAttempt("declaration rejected")
val = {val}
r1 = validate(S, val)
why = errors_problem(spec, val, r1)
if why:
    return False, "validator: " + why
r2 = validate_subst(S, val)
why = errors_problem(spec, val, r2)
if why:
    return False, "substitutor-validator: " + why
n = len(r1.get_errors())
return True, ("noerr" if n == 0 else ("one" if n == 1 else "many"))
"""

FUNCS = ("validation/_validator.py:Validator.visit_*", "validation/_validator.py:Validator._validate_elements",
         "substitution/_validator.py:SubstitutorValidator.visit_list/visit_dict",
         "validation/_formatter.py:Formatter.format_*", "validation/errors/__init__.py")

# which skeletons can yield more than one error at once
MANY = {"int.minmax", "str.lenrange", "str.alpha.contains.len", "list.typed", "list.typed.len", "list.exact",
        "list.head", "list.tail", "list.body", "dict.strict", "dict.relaxed", "dict.intkeys",
        "nest.dict.list.dict", "any.in.list", "list.typed.maxlen"}


PH_BODY = """
spec = {spec}
S = build(spec)
val = {val}
r2 = validate_subst(S, val)
why = errors_problem(spec, val, r2)
if why:
    return False, "substitutor-validator: " + why
return True, ("noerr" if len(r2.get_errors()) == 0 else "errors")
"""

PLACEHOLDERS = [
    ("ph.list.typed", "a: int, j: int, v0: int, v1: int", '("list_t", ("int", Nil, a, Nil), NOLEN)', "place3(j, ..., v0, v1)", ["0 <= j <= 2"]),
    ("ph.list.typed.two", "a: int, v0: int", '("list_t", ("int", Nil, a, Nil), NOLEN)', "[..., v0, ...]", []),
    ("ph.dict", "a: int, pa: bool, va: int, sel: int, px: bool",
     '("dict", [("a", False, ("int", Nil, a, Nil)), ("b", True, ("none",))], False)',
     "mkdict(('a', pa, ... if sel == 0 else va), ('b', True, ... if sel == 1 else 0), ('x', px, ...))", ["0 <= sel <= 2"]),
    ("ph.nested", "a: int, j: int, v0: int, pa: bool",
     '("dict", [("l", False, ("list_t", ("dict", [("a", False, ("int", Nil, a, Nil))], False), NOLEN))], True)',
     "{'l': place3(j, ..., mkdict(('a', pa, v0)), {'a': ...})}", ["0 <= j <= 2"]),
]


def harnesses(tier, seed, active_kf=()):
    out = []
    for name, params, spec, val, pre in PLACEHOLDERS:
        out.append(mk("C03." + name, params, PH_BODY.format(spec=spec, val=val), covers=("noerr", "errors"), pre=pre, timeout=90,
                      functions=FUNCS, prelude=PRELUDE, bounds=BOUNDS))
    for e in entries():
        if e["tier"] == "thorough" and tier != "thorough":
            continue
        covers = []
        if "reject" in e["covers"]:
            covers.append("one")
            if e["name"] in MANY:
                covers.append("many")
        out.append(mk("C03." + e["name"], e["params"], BODY.format(spec=e["spec"], val=e["val"]),
                      covers=covers, pre=e["pre_light"], timeout=e["timeout"] * 1.5, functions=FUNCS,
                      prelude=PRELUDE, bounds=BOUNDS))
    return out


def extra_checks(tier, seed, replay_dir, active_kf=()):
    """E2: exact IEEE-754 execution of the float branch (engine/fpsym.py) - see harness/fp_extra.py"""
    from harness import fp_extra
    return fp_extra.run("C03", tier, replay_dir, active_kf)
