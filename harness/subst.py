"""Skeletons shared by C04 (pins), C05 (narrows) and C12 (fails cleanly, usable, idempotent).

Entry: schema spec, the substituted value `v` (plain, no ... placeholders) and a probe value `w`
of the same shape family with independent symbolic leaves.
"""
from engine.hgen import mk

WILD = "Union[None, bool, int, float, str, bytes]"
WILD_NOFLOAT = "Union[None, bool, int, str, bytes]"
PRELUDE = "from typing import Union\n"
DRAWS = "d0: int, d1: int, d2: int, d3: int"
WPRE = "not isinstance({0}, (str, bytes)) or len({0}) <= 2"
NOTNAN = "not isinstance({0}, float) or {0} == {0}"


def e(name, params, spec, v, w, pre=(), timeout=90, tier="quick", build="build(spec)", chars=False,
      kf=None, covers=("subst", "raised"), hunt=False, plain=True, only=None):
    return dict(name=name, params=params + ", " + DRAWS + (", c0: str, c1: str" if chars else ""),
                spec=spec, v=v, w=w, pre=list(pre) + (["len(c0) == 1 and len(c1) == 1"] if chars else []),
                timeout=timeout, tier=tier, build=build, chars="(c0, c1)" if chars else "()", kf=kf or {},
                covers=covers, hunt=hunt, plain=plain, only=only)


def entries():
    L = []
    INT_A = '("int", Nil, a, Nil)'
    L.append(e("int.min", "a: int, v: int, w: int", INT_A, "v", "w"))
    L.append(e("int.minmax.wild", "a: int, b: int, v: %s, w: int" % WILD, '("int", Nil, a, b)', "v", "w",
               pre=[WPRE.format("v")]))
    L.append(e("int.value", "x: int, a: int, v: int, w: int", '("int", x, a, Nil)', "v", "w"))
    L.append(e("bool", "v: %s, w: %s" % (WILD, WILD), '("bool", Nil)', "v", "w", pre=[WPRE.format("v"), WPRE.format("w")]))
    L.append(e("none", "v: %s, w: %s" % (WILD, WILD), '("none",)', "v", "w", pre=[WPRE.format("v"), WPRE.format("w")]))
    L.append(e("bytes", "v: bytes, w: bytes", '("bytes", Nil)', "v", "w", pre=["len(v) <= 2", "len(w) <= 2"], covers=("subst",)))
    L.append(e("str.len", "n: int, v: str, w: str", '("str", Nil, (Nil, n, Nil), Nil, Nil, Nil)', "v", "w",
               pre=["len(v) <= 2", "len(w) <= 2"]))
    L.append(e("str.alpha.contains", "al: str, sub: str, v: str, w: str", '("str", Nil, NOLEN, al, sub, Nil)', "v", "w",
               pre=["len(al) <= 2", "len(sub) <= 1", "len(v) <= 2", "len(w) <= 2"], timeout=120))
    L.append(e("str.regex", "v: str, w: str", '("str", Nil, NOLEN, Nil, Nil, r"^a+b?$")', "v", "w",
               pre=["len(v) <= 3", "len(w) <= 3"]))
    L.append(e("uuid4", "i: int, j: int", '("uuid4", Nil)', "pick(UUID_VALUES, i)", "pick(UUID_VALUES, j)"))
    L.append(e("datetime", "i: int, j: int", '("datetime", Nil)', "pick(DT_VALUES, i)", "pick(DT_VALUES, j)"))
    L.append(e("date", "i: int, j: int", '("date", pick(DATES, 0))', "pick(DT_VALUES, i)", "pick(DT_VALUES, j)"))
    # ---- lists
    V3 = "mklist(n, v0, v1, v2)"
    W3 = "mklist(m, w0, w1, w2)"
    P3 = "n: int, v0: int, v1: int, v2: int, m: int, w0: int, w1: int, w2: int"
    N3 = ["0 <= n <= 3", "0 <= m <= 3"]
    L.append(e("list.untyped", "k: int, " + P3, '("list", None, (Nil, Nil, k))', V3, W3, pre=N3))
    L.append(e("list.typed", "a: int, " + P3, '("list_t", %s, NOLEN)' % INT_A, V3, W3, pre=N3))
    L.append(e("list.typed.len", "a: int, p: int, q: int, " + P3, '("list_t", %s, (Nil, p, q))' % INT_A, V3, W3, pre=N3))
    L.append(e("list.exact", "a: int, b: int, " + P3, '("list_e", [%s, ("int", Nil, Nil, b)], NOLEN)' % INT_A, V3, W3, pre=N3))
    L.append(e("list.head", "a: int, " + P3, '("list_e", [%s, E], NOLEN)' % INT_A, V3, W3, pre=N3))
    L.append(e("list.tail", "a: int, b: int, " + P3, '("list_e", [E, %s, ("int", Nil, Nil, b)], NOLEN)' % INT_A, V3, W3, pre=N3, timeout=120))
    L.append(e("list.body", "a: int, " + P3, '("list_e", [E, %s, E], NOLEN)' % INT_A, V3, W3, pre=N3, timeout=120))
    L.append(e("list.body2", "a: int, b: int, " + P3, '("list_e", [E, %s, ("int", Nil, Nil, b), E], NOLEN)' % INT_A, V3, W3,
               pre=N3, timeout=150))
    L.append(e("list.head.len", "a: int, k: int, " + P3, '("list_e", [%s, E], (Nil, Nil, k))' % INT_A, V3, W3, pre=N3))
    L.append(e("list.typed.any.mixed", "n: int, vb: bool, vi: int, vb2: bool, m: int, wb: bool, wi: int",
               '("list_t", ("any", None), NOLEN)', "mklist(n, vb, vi, vb2)", "mklist(m, wb, wi)", pre=["0 <= n <= 3", "0 <= m <= 2", "-2 <= vi <= 2"], covers=("subst",)))
    L.append(e("list.typed.anyof.mixed", "n: int, vb: bool, vi: int, m: int, wi: int",
               '("list_t", ("any", [("bool", Nil), ("int", Nil, Nil, Nil)]), NOLEN)', "mklist(n, vb, vi)", "mklist(m, wi, wi)",
               pre=["0 <= n <= 2", "0 <= m <= 2", "-2 <= vi <= 2"], covers=("subst",)))
    L.append(e("list.zoo", "i: int, n: int, v0: int, w: int", '("list", None, NOLEN)', "mklist(n, v0, pick(ZOO_UNCONVERTIBLE, i))", "[w]",
               pre=["0 <= n <= 2"]))
    L.append(e("list.head.zoo", "a: int, i: int, v0: int, w: int", '("list_e", [%s, E], NOLEN)' % INT_A,
               "[v0, pick(ZOO_UNCONVERTIBLE, i)]", "[w]", covers=("raised",)))
    L.append(e("list.body.zoo", "a: int, i: int, j: int, v0: int, w: int", '("list_e", [E, %s, E], NOLEN)' % INT_A,
               "mkdictlist(j, v0, pick(ZOO_UNCONVERTIBLE, i))", "[w]", pre=["0 <= j <= 1"], covers=("raised",)))
    L.append(e("list.body2.zoo", "a: int, b: int, i: int, j: int, v0: int, v1: int, w: int",
               '("list_e", [E, %s, ("int", Nil, Nil, b), E], NOLEN)' % INT_A, "place3(j, pick(ZOO_UNCONVERTIBLE, i), v0, v1)", "[w, w]",
               pre=["0 <= j <= 2"], covers=("raised",), timeout=120))
    L.append(e("list.body2.relaxed", "a: int, j: int, v0: int, px: bool, v1: int, w: int",
               '("list_e", [E, %s, ("dict", [("k", False, ("int", Nil, Nil, Nil))], True), E], NOLEN)' % INT_A,
               "place3(j, v1, v0, mkdict(('k', True, v1), ('x', px, 0)))", "[w, {'k': w}]", pre=["0 <= j <= 2"], timeout=150, covers=("raised",)))
    # ---- floats: products of two symbolic doubles inside isclose -> bug-hunting only
    L.append(e("float.minmax", "mn: float, mx: float, v: float, w: float", '("float", Nil, mn, mx, Nil)', "v", "w",
               pre=["mn == mn and mx == mx and v == v and w == w"], hunt=True, timeout=120))
    L.append(e("float.at.max", "mx: float, w: float", '("float", Nil, Nil, mx, Nil)', "mx", "w", pre=["mx == mx and w == w"],
               hunt=True, timeout=120, covers=("subst",)))
    # ---- ... placeholders (outside C04/C05 by their text; C12 speaks about any value)
    L.append(e("ph.list.typed", "a: int, j: int, v0: int, v1: int, w: int", '("list_t", %s, NOLEN)' % INT_A, "place3(j, ..., v0, v1)", "[w, w]",
               pre=["0 <= j <= 2"], plain=False, only=("C12",)))
    L.append(e("ph.list.all", "a: int, n: int, w: int", '("list_t", %s, NOLEN)' % INT_A, "mklist(n, ..., ...)", "[w]", pre=["0 <= n <= 2"],
               plain=False, only=("C12",)))
    L.append(e("ph.list.head", "a: int, j: int, v0: int, v1: int, w: int", '("list_e", [%s, E], NOLEN)' % INT_A, "place3(j, ..., v0, v1)", "[w, w]",
               pre=["0 <= j <= 2"], plain=False, only=("C12",), covers=("raised",)))
    L.append(e("ph.dict", "a: int, pa: bool, pb: bool, va: int, sel: int, w: int",
               '("dict", [("a", False, %s), ("b", True, ("none",))], False)' % INT_A,
               "mkdict(('a', pa, ... if sel == 0 else va), ('b', pb, ... if sel == 1 else None), (..., sel == 2, ...))", "{'a': w}",
               pre=["0 <= sel <= 3"], plain=False, only=("C12",)))
    L.append(e("ph.dict.untyped", "pa: bool, va: int, sel: int, rel: bool, w: int", '("dict", None) if not rel else ("dict", [], True)',
               "mkdict(('a', pa, ... if sel == 0 else va), (..., sel == 1, ...))", "{'a': w}", pre=["0 <= sel <= 2"], plain=False, only=("C12",)))
    # the `...` KEY mapped to something that is not `...` (a value, None, a nested container) in every dict form
    L.append(e("ph.dict.ellipsis.key", "a: int, i: int, pa: bool, va: int, sel: int, ve: int, w: int",
               'pick((("dict", [("a", False, %s)], True), ("dict", [("a", False, %s)], False), ("dict", [("a", False, %s)], "first"), '
               '("dict", None), ("dict", [], True), ("dict", [], False)), i)' % (INT_A, INT_A, INT_A),
               "mkdict(('a', pa, va), (..., True, pick((..., ve, None, [...], {'a': ...}), sel)))", "{'a': w}",
               pre=["0 <= i <= 5", "0 <= sel <= 4"], plain=False, only=("C12",), timeout=150))
    L.append(e("ph.dict.ellipsis.key.nested", "a: int, i: int, va: int, sel: int, ve: int, w: int",
               'pick((("dict", [("o", False, ("dict", [("a", False, %s)], True))], False), ("list_t", ("dict", [("a", False, %s)], True), NOLEN), '
               '("any", [("dict", [("a", False, %s)], True), ("none",)])), i)' % (INT_A, INT_A, INT_A),
               "pick(({'o': {'a': va, ...: pick((..., ve, None), sel)}}, [{'a': va, ...: pick((..., ve, None), sel)}], {'a': va, ...: pick((..., ve, None), sel)}), i)",
               "pick(({'o': {'a': w}}, [{'a': w}], {'a': w}), i)", pre=["0 <= i <= 2", "0 <= sel <= 2"], plain=False, only=("C12",), timeout=150,
               covers=("raised",)))
    L.append(e("ph.nested.list", "i: int, n: int, w: int", 'pick((("dict", None), ("any", None), ("list", None, NOLEN), ("dict", [], True)), i)',
               "pick(({'items': mklist(n, ..., ...)}, {'items': mklist(n, ..., ...)}, [mklist(n, ..., ...)], {'items': [mklist(n, ..., ...)]}), i)", "w",
               pre=["0 <= i <= 3", "0 <= n <= 2"], plain=False, only=("C12",)))
    L.append(e("ph.scalar", "a: int, i: int, w: int", 'pick((%s, ("none",), ("any", None), ("any", [%s, ("none",)]), ("str", Nil, NOLEN, Nil, Nil, Nil)), i)' % (INT_A, INT_A),
               "...", "w", plain=False, only=("C12",), covers=("raised",)))
    # ---- dicts
    L.append(e("dict.relaxed.first", "a: int, k: int, pa: bool, pb: bool, px: bool, va: int, vb: str, qa: bool, qb: bool, qx: bool, wa: int, wb: str",
               '("dict", [("a", False, %s), ("b", True, ("str", Nil, (Nil, k, Nil), Nil, Nil, Nil))], "first")' % INT_A,
               "mkdict(('a', pa, va), ('b', pb, vb), ('x', px, 0))", "mkdict(('a', qa, wa), ('b', qb, wb), ('x', qx, 0))",
               pre=["len(vb) <= 2", "len(wb) <= 2"], timeout=150))
    D = '("dict", [("a", False, %s), ("b", True, ("str", Nil, (Nil, k, Nil), Nil, Nil, Nil))], %%s)' % INT_A
    DP = "a: int, k: int, pa: bool, pb: bool, px: bool, va: int, vb: str, qa: bool, qb: bool, qx: bool, wa: int, wb: str"
    DV = "mkdict(('a', pa, va), ('b', pb, vb), ('x', px, 0))"
    DW = "mkdict(('a', qa, wa), ('b', qb, wb), ('x', qx, 0))"
    DPRE = ["len(vb) <= 2", "len(wb) <= 2"]
    L.append(e("dict.strict", DP, D % "False", DV, DW, pre=DPRE, timeout=150))
    L.append(e("dict.relaxed", DP, D % "True", DV, DW, pre=DPRE, timeout=150))
    D3 = '("dict", [("a", False, %s), ("b", True, ("none",)), ("c", False, ("bool", Nil))], rel)' % INT_A
    L.append(e("dict.3keys", "a: int, rel: bool, pa: bool, pb: bool, pc: bool, va: int, vc: bool, qa: bool, qb: bool, qc: bool, wa: int, wc: bool",
               D3, "mkdict(('a', pa, va), ('b', pb, None), ('c', pc, vc))", "mkdict(('a', qa, wa), ('b', qb, None), ('c', qc, wc))",
               timeout=150))
    L.append(e("dict.untyped", "pa: bool, pb: bool, va: int, vb: %s, qa: bool, wa: int" % WILD_NOFLOAT, '("dict", None)',
               "mkdict(('a', pa, va), ('b', pb, vb))", "mkdict(('a', qa, wa), ('b', True, None))", pre=[WPRE.format("vb")],
               covers=("subst",)))
    L.append(e("dict.untyped.float", "vb: float, wb: float", '("dict", None)', "{'b': vb}", "{'b': wb}", covers=("subst",),
               kf={"F13": "vb == vb"}, hunt=True))
    L.append(e("dict.onlyrelaxed", "pa: bool, va: int, qa: bool, qx: bool, wa: int", '("dict", [], True)',
               "mkdict(('a', pa, va))", "mkdict(('a', qa, wa), ('x', qx, 0))", covers=("subst",)))
    # schema.dict({}): a dict that must be empty (keys == {} is not "no keys declared")
    L.append(e("dict.empty.strict", "pa: bool, va: int, qa: bool, wa: int", '("dict", [], False)',
               "mkdict(('a', pa, va))", "mkdict(('a', qa, wa))"))
    L.append(e("dict.empty.strict.nested", "i: int, pa: bool, va: int, qa: bool, wa: int",
               'pick((("dict", [("o", True, ("dict", [], False))], False), ("list_t", ("dict", [], False), NOLEN), '
               '("any", [("dict", [], False), ("none",)])), i)',
               "pick(({'o': mkdict(('a', pa, va))}, [mkdict(('a', pa, va))], mkdict(('a', pa, va))), i)",
               "pick(({'o': mkdict(('a', qa, wa))}, [mkdict(('a', qa, wa))], mkdict(('a', qa, wa))), i)", pre=["0 <= i <= 2"], timeout=150))
    L.append(e("dict.zoo", "i: int, w: int", '("dict", None)', "{'a': pick(ZOO_UNCONVERTIBLE, i)}", "{'a': w}", covers=("raised",)))
    L.append(e("dict.in.list", "a: int, n: int, pa: bool, pb: bool, va: int, m: int, qa: bool, wa: int",
               '("list_t", ("dict", [("a", False, %s), ("b", True, ("none",))], False), NOLEN)' % INT_A,
               "mklist(n, mkdict(('a', pa, va), ('b', pb, None)), {'a': 0})", "mklist(m, mkdict(('a', qa, wa)), {'a': 0, 'b': None})",
               pre=["0 <= n <= 2", "0 <= m <= 2"], timeout=150))
    L.append(e("dict.nested", "a: int, pa: bool, pi: bool, va: int, qa: bool, qi: bool, wa: int, wi: int",
               '("dict", [("o", False, ("dict", [("a", False, %s), ("i", True, ("int", Nil, Nil, Nil))], True))], False)' % INT_A,
               "{'o': mkdict(('a', pa, va), ('i', pi, 7))}", "{'o': mkdict(('a', qa, wa), ('i', qi, wi))}", timeout=150))
    # ---- any / alias
    L.append(e("any.2", "a: int, k: int, v: %s, w: %s" % (WILD, WILD),
               '("any", [%s, ("str", Nil, (k, Nil, Nil), Nil, Nil, Nil)])' % INT_A, "v", "w", pre=[WPRE.format("v"), WPRE.format("w")],
               chars=True))
    L.append(e("any.empty", "v: %s, w: %s" % (WILD_NOFLOAT, WILD), '("any", None)', "v", "w", pre=[WPRE.format("v"), WPRE.format("w")],
               covers=("subst",)))
    L.append(e("any.empty.float", "v: float, w: float", '("any", None)', "v", "w", covers=("subst",), kf={"F13": "v == v"},
               hunt=True))
    L.append(e("any.empty.zoo", "i: int, w: int", '("any", None)', "pick(ZOO_UNCONVERTIBLE, i)", "w", covers=("raised",)))
    L.append(e("any.relaxed.dict", "a: int, pa: bool, px: bool, va: int, qa: bool, qx: bool, wa: int",
               '("any", [("dict", [("a", False, %s)], True), ("none",)])' % INT_A,
               "mkdict(('a', pa, va), ('x', px, 0))", "mkdict(('a', qa, wa), ('x', qx, 1))"))
    L.append(e("any.of.lists", "a: int, n: int, v0: int, v1: int, m: int, w0: int, w1: int",
               '("any", [("list_t", %s, NOLEN), ("list_e", [("int", Nil, Nil, a), E], NOLEN)])' % INT_A,
               "mklist(n, v0, v1)", "mklist(m, w0, w1)", pre=["0 <= n <= 2", "0 <= m <= 2"], timeout=150))
    L.append(e("alias", "a: int, b: int, v: int, w: int", '("alias", "T", ("int", Nil, a, b))', "v", "w"))
    L.append(e("alias.dict", "a: int, pa: bool, va: int, qa: bool, wa: int",
               '("alias", "T", ("dict", [("a", True, %s)], False))' % INT_A, "mkdict(('a', pa, va))", "mkdict(('a', qa, wa))"))
    return L


def thorough_entries():
    """generated depth-2 compositions (container form x leaf type), with independent v and w"""
    from harness.skeletons import _Cont, _Leaf
    out = []
    for f in ("typed", "head", "tail", "body", "dreq", "dopt", "any"):
        for lf in ("int", "intmax", "str", "alpha", "bool", "none", "bytes", "intval"):
            node = _Cont(f, _Leaf(lf), "c")
            sp, sparams, spre = node.spec()
            ve, vparams, vpre = node.value("v")
            we, wparams, wpre = node.value("w")
            # the schema itself must be generable (an unsatisfiable member / the empty alphabet of known finding F15 would make
            # fake(S % v) raise for reasons that have nothing to do with substitution)
            spre = spre + {"str": ["lk >= 0"], "alpha": ["len(lal) >= 1"]}.get(lf, [])
            out.append(e("gen2.%s.%s" % (f, lf), ", ".join(sparams + vparams + wparams), sp, ve, we, pre=spre + vpre + wpre,
                         timeout=120, tier="thorough", covers=("subst",), chars=(lf in ("str", "alpha"))))
    return out


HEAD = """
PLAIN = {plain}
spec = {spec}
try:
    S = {build}
except DeclarationError:
    raise IgnoreAttempt("declaration rejected")
v = {v}
w = {w}
try:
    R = substitute(S, v)
except SubstitutionError:
    return True, "raised"
"""


def harnesses_for(prop, post, cover_map=None):
    def harnesses(tier, seed, active_kf=()):
        out = []
        for en in entries() + (thorough_entries() if tier == "thorough" else []):
            if en["tier"] == "thorough" and tier != "thorough":
                continue
            if en["only"] and prop not in en["only"]:
                continue
            body = HEAD.format(spec=en["spec"], build=en["build"], v=en["v"], w=en["w"], plain=en["plain"]) + post.format(chars=en["chars"])
            covers = cover_map(en["covers"]) if cover_map else en["covers"]
            out.append(mk("%s.%s" % (prop, en["name"]), en["params"], body, covers=covers, pre=en["pre"],
                          timeout=en["timeout"], prelude=PRELUDE, kf=en["kf"], active_kf=active_kf,
                          meta={"hunt": en["hunt"]},
                          bounds="per harness: fixed schema/value shape; lists <= 3, strings <= 2-3, dict <= 4 keys; "
                                 "ints unbounded; unconvertible members from a 10-element zoo",
                          functions=("substitution/_substitutor.py:Substitutor.visit_*", "substitution/_validator.py",
                                     "utils/_from_native.py:from_native", "validation/_validator.py")))
        return out
    return harnesses
