"""C08 - validation is total: any Python value yields a result, failing is reporting.

Skeletons of harness/skeletons.py.  Two harnesses per skeleton: (a) the skeleton's own value with
its symbolic leaves (covers symbolic IEEE floats incl. inf/nan, unbounded ints, strings, bytes);
(b) the same value with one node - chosen by a symbolic position index - replaced by a member of
the hostile-value zoo chosen by a symbolic index.
"""
from engine.hgen import mk
from harness.skeletons import PRELUDE, entries

ASSUMPTIONS = [
    "hostile zoo ZOO_HOSTILE (engine/hlib.py): 48 stdlib values (quick tier: the 21-member ZOO_HOSTILE_Q) incl. Decimal/Fraction/tuple/set/bytearray, "
    "subclasses of str/int/list/dict, v1/v3/v5/nil UUIDs, dicts with tuple/None/mixed keys, opaque object, a class, "
    "a function, +-inf, nan, +-10**400, complex, range; objects whose own special methods raise are out of scope",
    "injection position and zoo member are solver-chosen indices (the solver enumerates the finite product)",
    "messages are rendered with symbolic leaves shown as <sym>",
]

BODY_A = """
spec = {spec}
try:
    S = build(spec)
except DeclarationError:
    raise IgnoreAttempt("declaration rejected")
val = {val}
why = total_problem(S, val)
return (why == ""), (why or "total")
"""

BODY_B = """
spec = {spec}
try:
    S = build(spec)
except DeclarationError:
    raise IgnoreAttempt("declaration rejected")
val = inject({val}, pos, pick({zoo}, zi))
why = total_problem(S, val)
return (why == ""), (why or "total")
"""

FUNCS = ("validation/_validator.py:Validator.visit_*", "validation/__init__.py:validate/validate_or_fail/format_result",
         "validation/_formatter.py:Formatter.format_*")

# zoo twins that do not finish inside the quick budget (a concrete str subclass meeting a symbolic substring makes
# CrossHair realise; the 3-level nest is simply large) - they run in the thorough tier only
QUICK_SKIP_ZOO = {"str.contains", "str.alpha.contains.len", "nest.dict.list.dict", "any.of.lists", "any.of.lists.in.dict",
                  "dict.3keys.relaxed", "dict.3keys"}

FLOAT_EXTRA = [
    ("float.value.precision", "x: float, p: int, v: float", '("float", x, Nil, Nil, pick((1, 2, 15), p))', "v", ["x == x"]),
    ("float.value", "x: float, v: float", '("float", x, Nil, Nil, Nil)', "v", []),
    ("float.in.dict", "x: float, p: int, v: float, mn: float", '("dict", [("f", False, ("float", x, Nil, Nil, pick((1, 3), p))), ("g", True, ("float", Nil, mn, Nil, Nil))], False)',
     "{'f': v, 'g': v}", ["x == x"]),
]


def harnesses(tier, seed, active_kf=()):
    out = []
    thorough = tier == "thorough"
    bounds = ("skeleton catalogue; zoo of %d hostile values x every node position of the skeleton's value"
              % (48 if thorough else 21))
    chunks = [("ZOO_HOSTILE[0:12]", "a"), ("ZOO_HOSTILE[12:24]", "b"), ("ZOO_HOSTILE[24:36]", "c"), ("ZOO_HOSTILE[36:48]", "d")] if thorough \
        else [("ZOO_HOSTILE_Q", "q")]
    k = 3.0 if thorough else 1.0
    for e in entries():
        if e["tier"] == "thorough" and not thorough:
            continue
        out.append(mk("C08.%s.sym" % e["name"], e["params"], BODY_A.format(spec=e["spec"], val=e["val"]),
                      covers=("total",), pre=e["pre_light"], timeout=e["timeout"] * 1.5 * k, functions=FUNCS,
                      prelude=PRELUDE, bounds=bounds))
        zpre = list(e["pre_light"]) + ["0 <= pos <= 12"]
        if not thorough:
            # quick tier: the unperturbed shape is pinned to one list length (the .sym twin varies it)
            if "v3: int" in e["params"]:
                zpre.append("n == 3")
            elif e["name"].startswith("nest.") and "n: int" in e["params"]:
                zpre.append("n == 2")
            if e["name"].startswith("str.") and "sub: str" in e["params"]:
                zpre.append("len(sub) <= 1 and len(v) <= 1")
        if not thorough and e["name"] in QUICK_SKIP_ZOO:
            continue
        for zoo, tag in (chunks if not e["name"].startswith("gen") else [("ZOO_HOSTILE_Q", "q")]):
            out.append(mk("C08.%s.zoo%s" % (e["name"], tag), e["params"] + ", pos: int, zi: int",
                          BODY_B.format(spec=e["spec"], val=e["val"], zoo=zoo),
                          covers=("total",), pre=zpre, timeout=e["timeout"] * 2 * k,
                          functions=FUNCS, prelude=PRELUDE, bounds=bounds))
    for name, params, spec, val, pre in FLOAT_EXTRA:
        out.append(mk("C08.%s.sym" % name, params, BODY_A.format(spec=spec, val=val), covers=("total",), pre=pre,
                      timeout=45 * k, functions=FUNCS, prelude=PRELUDE, bounds=bounds, meta={"hunt": True}))
        out.append(mk("C08.%s.zoo" % name, params + ", pos: int, zi: int", BODY_B.format(spec=spec, val=val, zoo="ZOO_HOSTILE_Q"),
                      covers=("total",), pre=pre + ["0 <= pos <= 3"], timeout=45 * k, functions=FUNCS, prelude=PRELUDE,
                      bounds=bounds, meta={"hunt": True}))
    return out


def extra_checks(tier, seed, replay_dir, active_kf=()):
    """E2: exact IEEE-754 execution of the float branch (engine/fpsym.py) - see harness/fp_extra.py"""
    from harness import fp_extra
    return fp_extra.run("C08", tier, replay_dir, active_kf)
