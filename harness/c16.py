"""C16 - a forwarding CustomSchema behaves like the built-in it wraps, in every position."""
from engine.hgen import mk
from harness.skeletons import PRELUDE, entries

ASSUMPTIONS = [
    "Wrap (engine/hlib.py) forwards __validate__/__generate__/__represent__/__substitute__ to an inner built-in schema",
    "skeleton catalogue; wrap placements over the first 4 nodes (pre-order) of the schema tree: quick = 4 placements (root, node 1, nodes 2+3, all), thorough = all 15",
    "a wrapped `any` that is itself an alternative of an `any` is outside the claim: the built-in class is flattened at "
    "declaration time, which changes the printed form but not the accepted set",
    "validation: same error kinds, paths, reported objects and scalar fields; generation: same draw tape, the value "
    "produced through custom types must conform to the plain tree; printed form identical; substitution succeeds "
    "or fails identically and the results print identically and agree on a second value (the skeleton value re-used "
    "with the roles of leaves swapped where available)",
]
BOUNDS = "skeleton catalogue (depth <= 3); 2^4 wrap placements per skeleton; tape 6 ints / 3 chars"
FUNCS = ("custom_type/_custom_type.py:CustomSchema.__d42_*__", "declaration/types/_schema.py:Schema.__accept__",
         "validation/_validator.py:Validator.visit", "generation/_generator.py:Generator.visit",
         "representation/_representor.py:Representor.visit", "substitution/_substitutor.py:Substitutor.visit")

BODY = """
spec = {spec}
try:
    build(spec)
except DeclarationError:
    raise IgnoreAttempt("declaration rejected")
val = {val}
why = custom_problem(spec, {mask}, val, val)
return (why == ""), (why or "same")
"""

GEN = """
spec = {spec}
try:
    build(spec)
except DeclarationError:
    raise IgnoreAttempt("declaration rejected")
why = custom_gen_problem(spec, {mask}, (d0, d1, d2, d3, d4, d5), (c0, c1, c2))
return (why == ""), (why or "same")
"""

USE = {"int.minmax", "str.lenrange", "str.alphabet", "list.typed", "list.typed.len", "list.exact", "list.head", "list.tail",
       "list.body", "list.typed.wild", "dict.strict", "dict.relaxed", "dict.wild.member", "dict.intkeys", "dict.untyped",
       "nest.dict.list.dict", "nest.list.list", "any.3", "any.dup", "any.in.list", "alias", "alias.in.dict", "uuid4",
       "bool.value", "none", "list.untyped.len", "dict.empty"}


QUICK = {"int.minmax", "str.lenrange", "list.typed", "list.exact", "list.head", "list.body", "dict.strict", "dict.relaxed",
         "dict.untyped", "nest.list.list", "any.3", "any.dup", "any.in.list", "alias", "alias.in.dict", "uuid4", "none"}


def harnesses(tier, seed, active_kf=()):
    import itertools
    out = []
    tape = "d0: int, d1: int, d2: int, d3: int, d4: int, d5: int, c0: str, c1: str, c2: str"
    if tier == "thorough":
        masks = [m for m in itertools.product((False, True), repeat=4) if any(m)]
    else:
        masks = [(True, False, False, False), (False, True, False, False), (False, False, True, True), (True, True, True, True)]
    for e in entries():
        if e["name"] not in USE or (tier != "thorough" and e["name"] not in QUICK):
            continue
        for m in masks:
            tag = "".join("1" if x else "0" for x in m)
            out.append(mk("C16.%s.vrs.%s" % (e["name"], tag), e["params"], BODY.format(spec=e["spec"], val=e["val"], mask=repr(m)),
                          covers=("same",), pre=e["pre_light"], timeout=e["timeout"] * 1.5, prelude=PRELUDE, functions=FUNCS,
                          bounds=BOUNDS))
            gpre = ["%s <= 3" % v for v in ("k", "p", "q") if ("%s: int" % v) in e["params"]]   # generated lengths stay short
            out.append(mk("C16.%s.gen.%s" % (e["name"], tag), e["params"] + ", " + tape,
                          GEN.format(spec=e["spec"], mask=repr(m)), covers=("same",),
                          pre=e["pre_light"] + gpre + ["len(c0) == 1 and len(c1) == 1 and len(c2) == 1"],
                          timeout=e["timeout"] * 1.5, prelude=PRELUDE, functions=FUNCS, bounds=BOUNDS))
        # substituting a bare ... (and other odd roots) must succeed or fail identically as well
        if e["name"] in ("int.minmax", "dict.strict", "list.typed", "any.3", "alias"):
            body = BODY.format(spec=e["spec"], val="pick((..., [...], {'a': ...}, None), zi)", mask=repr(masks[0])) \
                .replace("custom_problem(spec, %r, val, val)" % (masks[0],), "custom_problem(spec, pick(MASKS, mi), val, val)")
            out.append(mk("C16.%s.oddroot" % e["name"], e["params"] + ", zi: int, mi: int", "MASKS = %r\n" % (masks,) + body,
                          covers=("same",), pre=e["pre_light"] + ["0 <= zi <= 3", "0 <= mi <= %d" % (len(masks) - 1)],
                          timeout=e["timeout"] * 1.5, prelude=PRELUDE, functions=FUNCS, bounds=BOUNDS))
    return out
