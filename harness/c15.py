"""C15 - schema equality is structural; schema == value means the value validates."""
from engine.hgen import mk

WILD = "Union[None, bool, int, float, str, bytes]"
PRELUDE = "from typing import Union\n"
SB = "not isinstance({0}, (str, bytes)) or len({0}) <= 2"

ASSUMPTIONS = [
    "pairs/triples of schemas built by the same builder (engine/hlib.py eq_*) from independent symbolic parameters "
    "and presence/form selectors - this contains independent rebuilds (equal parameters) and every single-parameter, "
    "single-flag and single-form variant; plus a 16-member menu of schemas of different types",
    "discrimination is checked in contrapositive form: a == b must imply equal verdicts on a symbolic probe value",
    "float parameters: all doubles except NaN (known finding F11)",
]
BOUNDS = "builders: int, float, str (5 len forms), dict (5 shapes), list (8 forms), any (5 forms), 16 misc schemas"
FUNCS = ("declaration/_props.py:Props.__eq__", "validation/__init__.py:eq", "declaration/types/_schema.py:Schema.__ne__",
         "declaration/types/_optional.py:optional.__eq__/__hash__")

PAIR = """
try:
    a = {a}
    b = {b}
except DeclarationError:
    raise IgnoreAttempt("declaration rejected")
why = eq_pair_problem(a, b, v)
return (why == ""), (why or ("equal" if a == b else "unequal"))
"""

TRIPLE = """
try:
    a = {a}
    b = {b}
    c = {c}
except DeclarationError:
    raise IgnoreAttempt("declaration rejected")
if (a == b) and (b == c):
    return (a == c), "chain"
return True, "nochain"
"""

H = []


def pair(name, params, a, b, pre=(), covers=("equal", "unequal"), timeout=90, kf=None, hunt=False):
    H.append(("pair", name, params + ", v: " + WILD, PAIR.format(a=a, b=b), list(pre) + [SB.format("v")], covers, timeout, kf or {}, hunt))


def triple(name, params, a, b, c, pre=(), timeout=90, kf=None):
    H.append(("triple", name, params, TRIPLE.format(a=a, b=b, c=c), list(pre), ("chain", "nochain"), timeout, kf or {}, False))


def P(prefix, names):
    return ", ".join("%s%s" % (prefix, n) for n in names)


INT = ["hv: bool", "x: int", "hmn: bool", "mn: int", "hmx: bool", "mx: int"]
pair("int", P("a_", INT) + ", " + P("b_", INT), "eq_int(a_hv, a_x, a_hmn, a_mn, a_hmx, a_mx)", "eq_int(b_hv, b_x, b_hmn, b_mn, b_hmx, b_mx)")
triple("int", ", ".join(P(q, INT) for q in ("a_", "b_", "c_")), "eq_int(a_hv, a_x, a_hmn, a_mn, a_hmx, a_mx)",
       "eq_int(b_hv, b_x, b_hmn, b_mn, b_hmx, b_mx)", "eq_int(c_hv, c_x, c_hmn, c_mn, c_hmx, c_mx)", timeout=150)
FL = ["hmn: bool", "mn: float", "hmx: bool", "mx: float", "hp: bool", "p: int"]
for _hmn in (False, True):
    for _hmx in (False, True):
        for _hp in (False, True):
            pair("float.%d%d%d" % (_hmn, _hmx, _hp), "a_mn: float, a_mx: float, a_p: int, " + P("b_", FL),
                 "eq_float(False, 0.0, %r, a_mn, %r, a_mx, %r, a_p)" % (_hmn, _hmx, _hp),
                 "eq_float(False, 0.0, b_hmn, b_mn, b_hmx, b_mx, b_hp, b_p)",
                 pre=["a_mn == a_mn and a_mx == a_mx and b_mn == b_mn and b_mx == b_mx"])
pair("float.value", "x: float, y: float", "schema.float(x)", "schema.float(y)", kf={"F11": "x == x and y == y"}, hunt=True)
ST = ["lf: int", "n: int", "m: int", "ha: bool", "al: str", "hs: bool", "sub: str"]
STPRE = ["0 <= a_lf <= 4 and 0 <= b_lf <= 4", "len(a_al) <= 1 and len(b_al) <= 1 and len(a_sub) <= 1 and len(b_sub) <= 1"]
for _lf in range(5):
    for _ha in (False, True):
        for _hs in (False, True):
            pair("str.%d%d%d" % (_lf, _ha, _hs), "a_n: int, a_m: int, a_al: str, a_sub: str, " + P("b_", ST),
                 "eq_str(%d, a_n, a_m, %r, a_al, %r, a_sub)" % (_lf, _ha, _hs), "eq_str(b_lf, b_n, b_m, b_ha, b_al, b_hs, b_sub)",
                 pre=["0 <= b_lf <= 4", STPRE[1]], timeout=120)
pair("str.value", "x: str, y: str", "schema.str(x)", "schema.str(y)", pre=["len(x) <= 2 and len(y) <= 2"])
DI = ["p: int", "hb: bool", "ob: bool", "rel: bool", "typed: bool"]
DSH = [(False, False, False, False)] + [(hb, ob, rel, True) for hb in (False, True) for ob in ((False, True) if hb else (False,)) for rel in (False, True)]
for _hb, _ob, _rel, _ty in DSH:
    pair("dict.%d%d%d%d" % (_hb, _ob, _rel, _ty), "a_p: int, " + P("b_", DI) + ", pa: bool, va: int, pb: bool, px: bool",
         "eq_dict(a_p, %r, %r, %r, %r)" % (_hb, _ob, _rel, _ty), "eq_dict(b_p, b_hb, b_ob, b_rel, b_typed)", timeout=120)
    H[-1] = H[-1][:3] + (H[-1][3].replace("why = eq_pair_problem(a, b, v)", "v = mkdict(('a', pa, va), ('b', pb, None), ('x', px, v))\nwhy = eq_pair_problem(a, b, v)"),) + H[-1][4:]
    pair("nested.list.of.dict.%d%d%d%d" % (_hb, _ob, _rel, _ty), "a_p: int, " + P("b_", DI), "schema.list(eq_dict(a_p, %r, %r, %r, %r))" % (_hb, _ob, _rel, _ty),
         "schema.list(eq_dict(b_p, b_hb, b_ob, b_rel, b_typed))", timeout=120)
    H[-1] = H[-1][:3] + (H[-1][3].replace("why = eq_pair_problem(a, b, v)", "v = [{'a': 0}, v]\nwhy = eq_pair_problem(a, b, v)"),) + H[-1][4:]
for _pos in (1, 2, 3):       # the `...: ...` entry first / in the middle / last on one side, anywhere on the other
    for _ahb in (False, True):
        pair("dict.ellipsis.pos%d.%d" % (_pos, _ahb), "a_p: int, a_ob: bool, b_p: int, b_hb: bool, b_ob: bool, b_pos: int, pa: bool, va: int, pb: bool, px: bool",
             "eq_dict_pos(a_p, %r, a_ob, %d)" % (_ahb, _pos), "eq_dict_pos(b_p, b_hb, b_ob, b_pos)", pre=["0 <= b_pos <= 3"] + ([] if _ahb else ["not a_ob"]), timeout=240)
        H[-1] = H[-1][:3] + (H[-1][3].replace("why = eq_pair_problem(a, b, v)", "v = mkdict(('a', pa, va), ('b', pb, None), ('x', px, v))\nwhy = eq_pair_problem(a, b, v)"),) + H[-1][4:]
triple("dict", ", ".join(P(q, DI) for q in ("a_", "b_", "c_")), "eq_dict(a_p, a_hb, a_ob, a_rel, a_typed)",
       "eq_dict(b_p, b_hb, b_ob, b_rel, b_typed)", "eq_dict(c_p, c_hb, c_ob, c_rel, c_typed)", timeout=150)
LI = ["form: int", "p: int", "hl: bool", "n: int"]
for _form in range(8):
    for _hl in (False, True):
        pair("list.%d%d" % (_form, _hl), "a_p: int, a_n: int, " + P("b_", LI) + ", k: int, v0: int, v1: int",
             "eq_list(%d, a_p, %r, a_n)" % (_form, _hl), "eq_list(b_form, b_p, b_hl, b_n)", pre=["0 <= b_form <= 7", "0 <= k <= 3"], timeout=120)
        H[-1] = H[-1][:3] + (H[-1][3].replace("why = eq_pair_problem(a, b, v)", "v = mklist(k, v0, v1, v)\nwhy = eq_pair_problem(a, b, v)"),) + H[-1][4:]
AN = ["form: int", "p: int"]
pair("any", P("a_", AN) + ", " + P("b_", AN), "eq_any(a_form, a_p)", "eq_any(b_form, b_p)", pre=["0 <= a_form <= 4 and 0 <= b_form <= 4"])
triple("any", ", ".join(P(q, AN) for q in ("a_", "b_", "c_")), "eq_any(a_form, a_p)", "eq_any(b_form, b_p)", "eq_any(c_form, c_p)",
       pre=["0 <= a_form <= 4 and 0 <= b_form <= 4 and 0 <= c_form <= 4"])
pair("misc", "i: int, j: int", "eq_misc(i)", "eq_misc(j)", pre=["0 <= i <= 15 and 0 <= j <= 15"], timeout=150)
for _i in range(16):
    triple("misc.%d" % _i, "j: int, k: int", "eq_misc(%d)" % _i, "eq_misc(j)", "eq_misc(k)", pre=["0 <= j <= 15 and 0 <= k <= 15"], timeout=120)
pair("misc.vs.int", "i: int, " + P("b_", INT), "eq_misc(i)", "eq_int(b_hv, b_x, b_hmn, b_mn, b_hmx, b_mx)", pre=["0 <= i <= 15"])

VAL = """
try:
    a = {a}
except DeclarationError:
    raise IgnoreAttempt("declaration rejected")
why = eq_value_problem(a, v)
return (why == ""), (why or ("accept" if a == v else "reject"))
"""
VALS = [("int", P("a_", INT), "eq_int(a_hv, a_x, a_hmn, a_mn, a_hmx, a_mx)", []),
        ("misc", "i: int", "eq_misc(i)", ["0 <= i <= 15"]),
        ("dict", P("a_", DI) + ", pa: bool, va: int", "eq_dict(a_p, a_hb, a_ob, a_rel, a_typed)", []),
        ("list", P("a_", LI), "eq_list(a_form, a_p, a_hl, a_n)", ["0 <= a_form <= 7"])]

OPT = """
k1 = pick(("a", "b", 1, (1, 2), None), i)
k2 = pick(("a", "b", 1, (1, 2), None), j)
o1, o2 = optional(k1), optional(k2)
e = (o1 == o2)
ok = e == (k1 == k2) and (o2 == o1) == e and (o1 == o1) and not (o1 == k1) and ((o1 != o2) == (not e))
if e:
    ok = ok and hash(o1) == hash(o2)
try:
    optional(...)
    ok = False
except TypeError:
    pass
return ok, ("equal" if e else "unequal")
"""


def _quick_core(kind, name):
    """quick tier = a fixed core of first-operand shapes (+ VERIF_SEED-selected extras); thorough = all"""
    parts = name.split(".")
    if kind == "pair" and parts[0] == "str" and len(parts) == 2 and parts[1][1] != parts[1][2]:
        return False
    if kind == "pair" and parts[0] == "list" and parts[1][1] == "1" and parts[1][0] not in "135":
        return False
    if kind == "triple" and parts[0] == "misc" and len(parts) == 2 and int(parts[1]) not in (0, 1, 3, 9, 13, 14):
        return False
    if kind == "pair" and parts[0] == "nested" and parts[-1] not in ("0000", "1011", "1101"):
        return False
    return True


def harnesses(tier, seed, active_kf=()):
    import random
    out = []
    extras = [(k, n) for k, n, *_ in H if not _quick_core(k, n)]
    chosen = set(random.Random(seed).sample(extras, min(6, len(extras)))) if tier != "thorough" else set(extras)
    for kind, name, params, body, pre, covers, timeout, kf, hunt in H:
        if not _quick_core(kind, name) and (kind, name) not in chosen:
            continue
        out.append(mk("C15.%s.%s" % (kind, name), params, body, covers=covers, pre=pre, timeout=timeout, prelude=PRELUDE,
                      functions=FUNCS, bounds=BOUNDS, kf=kf, active_kf=active_kf, meta={"hunt": hunt}, cover_timeout=60))
    for name, params, a, pre in VALS:
        body = VAL.format(a=a)
        if name == "dict":
            body = body.replace("why = eq_value_problem(a, v)", "if pa:\n    v = {'a': va}\nwhy = eq_value_problem(a, v)")
        if name == "list":
            body = body.replace("why = eq_value_problem(a, v)", "if isinstance(v, int):\n    v = [v]\nwhy = eq_value_problem(a, v)")
        out.append(mk("C15.value.%s" % name, params + ", v: " + WILD, body, covers=("accept", "reject"), pre=pre + [SB.format("v")],
                      timeout=90, prelude=PRELUDE, functions=FUNCS, bounds=BOUNDS))
    out.append(mk("C15.value.menu", "si: int, vi: int", """
si, vi = conc(si, 6), conc(vi, 15)
with notrace():
    S = (schema.datetime, schema.datetime(DATETIMES[0]), schema.date, schema.date(DATES[0]), schema.uuid4, schema.uuid4(UUIDS4[0]), schema.bytes)[si]
    v = (DT_VALUES + UUID_VALUES + (b"x",))[vi] if vi < 16 else None
    why = eq_value_problem(S, v)
return (why == ""), (why or ("accept" if S == v else "reject"))
""", covers=("accept", "reject"), pre=["0 <= si <= 6", "0 <= vi <= 15"], timeout=90, functions=FUNCS, bounds=BOUNDS))
    out.append(mk("C15.optional", "i: int, j: int", OPT, covers=("equal", "unequal"), pre=["0 <= i <= 4 and 0 <= j <= 4"],
                  functions=FUNCS, bounds=BOUNDS))
    return out
