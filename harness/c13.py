"""C13 - schema combinators mean what their parts mean.

Relational oracles: the real validator on the operands decides what the combination must accept.
"""
from engine.hgen import mk

WILD = "Union[None, bool, int, float, str, bytes]"
PRELUDE = "from typing import Union\n"
WPRE = "not isinstance(w, (str, bytes)) or len(w) <= 2"

ASSUMPTIONS = [
    "operands: int/str/none/bool leaves with symbolic bounds, dict schemas with required/optional/relaxed keys "
    "(flags symbolic); values: wild scalar or dict with symbolic presence flags and leaves",
    "union/any: accepts(v) == OR of accepts by the operands (real validator on each operand)",
    "d1 + d2: same verdict as a dict schema declared afresh with d1's keys overridden/extended by d2's, relaxed iff "
    "either operand is; also checked against the independent oracle `conforms`",
    "make_required keys come from a 7-element menu (None, [], lists/tuple/set of declared keys, an undeclared key)",
    "alias: same verdict, same generated value under the same draw tape, substitution succeeds iff it does on the target",
]
BOUNDS = "fixed operand shapes (<= 4 alternatives, <= 3 keys per dict operand); symbolic bounds, flags and value leaves"
FUNCS = ("declaration/__init__.py:union", "declaration/types/_any_schema.py:AnySchema.__call__/_flatten_schemas/__iter__",
         "declaration/types/_dict_schema.py:DictSchema.__add__/__getitem__/keys/__iter__", "utils/_make_required.py:make_required",
         "declaration/types/_type_alias_schema.py", "declaration/_schema_facade.py:SchemaFacade.alias",
         "validation/_validator.py:visit_any/visit_dict/visit_type_alias")

OPS = """
A = schema.int.min(p)
B = schema.str.len(k, ...)
C = schema.none
D = schema.int.max(q)
accA, accB, accC, accD = ok_validate(A, w), ok_validate(B, w), ok_validate(C, w), ok_validate(D, w)
"""

H = []


def add(name, params, body, covers, pre=(), timeout=60):
    H.append(mk("C13." + name, params, body, covers=covers, pre=list(pre), timeout=timeout, prelude=PRELUDE,
                functions=FUNCS, bounds=BOUNDS, cover_timeout=max(30, timeout)))


UP = "p: int, q: int, k: int, w: " + WILD

add("union.2", UP, OPS + """
U = A | B
ok = ok_validate(U, w) == (accA or accB)
return ok, ("accept" if (accA or accB) else "reject")
""", ("accept", "reject"), [WPRE])

add("union.left.nested", UP, OPS + """
U = (A | B) | C
V = schema.any(schema.any(A, B), C)
want = accA or accB or accC
ok = ok_validate(U, w) == want and ok_validate(V, w) == want and len(list(U)) == 3 and len(list(V)) == 3
return ok, ("accept" if want else "reject")
""", ("accept", "reject"), [WPRE])

add("union.both.nested", UP, OPS + """
U = (A | B) | (C | D)
V = schema.any(schema.any(A, B), schema.any(C, D))
X = schema.any(schema.any(A, B), C, schema.any(D))
want = accA or accB or accC or accD
ok = ok_validate(U, w) == want and ok_validate(V, w) == want and ok_validate(X, w) == want
members = list(U)
ok = ok and len(members) == 4 and members[0] is A and members[1] is B and members[2] is C and members[3] is D
return ok, ("accept" if want else "reject")
""", ("accept", "reject"), [WPRE])

add("union.right.nested", UP, OPS + """
U = A | (B | (C | D))
want = accA or accB or accC or accD
ok = ok_validate(U, w) == want
# only-D-accepts witness is interesting: D is the deepest operand
return ok, ("onlyD" if (accD and not accA and not accB and not accC) else ("accept" if want else "reject"))
""", ("onlyD", "reject"), [WPRE])

add("any.empty.in.union", UP, OPS + """
U = schema.any(A, schema.any)          # the bare any accepts everything and must not be flattened away
ok = ok_validate(U, w)
return ok, "accept"
""", ("accept",), [WPRE])

add("union.bare.any.operand", UP, OPS + """
# the bare any (no alternatives) accepts every value; as an operand of | in any position the union accepts everything
E = schema.any
U1 = E | A
U2 = A | E
U3 = (E | A) | B
U4 = schema.any(E) | D
U5 = schema.dict({"k": E | A})
ok = ok_validate(E, w) and ok_validate(U1, w) and ok_validate(U2, w) and ok_validate(U3, w) and ok_validate(U4, w)
ok = ok and ok_validate(U5, {"k": w})
return ok, ("Arejects" if not accA else "Aaccepts")
""", ("Arejects", "Aaccepts"), [WPRE])

add("union.any.of.one", UP, OPS + """
# a one-alternative any as the left operand: means exactly its alternative
U = schema.any(A) | B
V = schema.any(schema.any(A)) | B | schema.any(C)
ok = ok_validate(U, w) == (accA or accB) and ok_validate(V, w) == (accA or accB or accC)
return ok, ("accept" if (accA or accB or accC) else "reject")
""", ("accept", "reject"), [WPRE])

add("union.pinned", "x: int, b: bool, w: " + WILD, """
A = schema.int(x)
B = schema.bool(b)
C = schema.bytes(b"on")
D = schema.str("on")
accs = [ok_validate(s, w) for s in (A, B, C, D)]
want = accs[0] or accs[1] or accs[2] or accs[3]
U = A | B | C | D
V = schema.alias("U", schema.any(A, schema.any(B, C), D))
ok = ok_validate(U, w) == want and ok_validate(V, w) == want and (U == w) == want
return ok, ("accept" if want else "reject")
""", ("accept", "reject"), [WPRE, "-1000 <= x <= 1000"], timeout=120)

add("any.iter", "p: int, q: int", """
A = schema.int.min(p)
D = schema.int.max(q)
U = schema.any(A, D, schema.none)
m = list(U)
ok = len(m) == 3 and m[0] is A and m[1] is D and list(schema.any) == []
return ok, "iter"
""", ("iter",))

# ---- d1 + d2
DICTS = """
k1 = {"a": schema.int.min(p)}
if o1:
    k1[optional("x")] = schema.none
else:
    k1["x"] = schema.none
if r1:
    k1[...] = ...
k2 = {"a": schema.int.max(q)}
if o2:
    k2[optional("y")] = schema.bool
else:
    k2["y"] = schema.bool
if r2:
    k2[...] = ...
d1 = schema.dict(k1)
d2 = schema.dict(k2)
v = mkdict(("a", pa, va), ("x", px, None), ("y", py, vy), ("z", pz, 0))
"""
DP = "p: int, q: int, o1: bool, r1: bool, o2: bool, r2: bool, pa: bool, va: int, px: bool, py: bool, vy: " + WILD + ", pz: bool"
DP2 = DP.replace("o1: bool, ", "").replace("o2: bool, ", "")
DPRE = ["not isinstance(vy, (str, bytes)) or len(vy) <= 1"]

for _o1 in (False, True):
  for _o2 in (False, True):
    add("dict.add.o%d%d" % (_o1, _o2), DP2, ("o1, o2 = %r, %r" % (_o1, _o2)) + DICTS + """
S = d1 + d2
fresh = {"a": schema.int.max(q)}
fresh[optional("x") if o1 else "x"] = schema.none
fresh[optional("y") if o2 else "y"] = schema.bool
if r1 or r2:
    fresh[...] = ...
F = schema.dict(fresh)
spec = ("dict", [("a", False, ("int", Nil, Nil, q)), ("x", o1, ("none",)), ("y", o2, ("bool", Nil))], r1 or r2)
want = conforms(spec, v)
ok = ok_validate(S, v) == want and ok_validate(F, v) == want
ok = ok and S["a"] is d2["a"] and S["x"] is d1["x"] and S["y"] is d2["y"]
ok = ok and set(k for k in S if k is not ...) == {"a", "x", "y"}
return ok, ("accept" if want else "reject")
""", ("accept", "reject"), DPRE, timeout=120)

add("dict.add.empty", "p: int, r1: bool, pa: bool, va: int, pz: bool", """
keys = {"a": schema.int.min(p)}
if r1:
    keys[...] = ...
d1 = schema.dict(keys)
v = mkdict(("a", pa, va), ("z", pz, 0))
want = ok_validate(d1, v)
ok = ok_validate(d1 + schema.dict, v) == want and ok_validate(schema.dict + d1, v) == want
ok = ok and ok_validate(d1 + schema.dict({}), v) == want
return ok, ("accept" if want else "reject")
""", ("accept", "reject"))

add("dict.add.optional.override", "p: int, pa: bool, va: int", """
d1 = schema.dict({optional("a"): schema.int.min(p)})
d2 = schema.dict({"a": schema.int.min(p)})
v = mkdict(("a", pa, va))
ok = ok_validate(d1 + d2, v) == ok_validate(d2, v) and ok_validate(d2 + d1, v) == ok_validate(d1, v)
return ok, ("present" if pa else "absent")
""", ("present", "absent"))

# ---- make_required
MR = """
keys = {optional("a"): schema.int.min(p), "c": schema.none}
if ob:
    keys[optional("b")] = schema.bool
else:
    keys["b"] = schema.bool
if rel:
    keys[...] = ...
d = schema.dict(keys)
v = mkdict(("a", pa, va), ("b", pb, True), ("c", pc, None), ("z", pz, 0))
menu = (None, [], ["a"], ["a", "b"], ("b",), {"a", "c"}, ["zz"])
ks = pick(menu, ki)
try:
    M = make_required(d, ks) if ks is not None else make_required(d)
except DeclarationError:
    return (ki == 6), "rejected"
if ki == 6:
    return False, "undeclared key accepted"
need = ["a", "b", "c"] if ks is None else list(ks)
present = True
for key in need:
    if key not in v:
        present = False
want = ok_validate(d, v) and present
ok = ok_validate(M, v) == want
# the input schema is unchanged
ok = ok and ok_validate(d, {"c": None}) == ob
return ok, ("accept" if want else "reject")
"""
add("make_required", "p: int, ob: bool, rel: bool, pa: bool, va: int, pb: bool, pc: bool, pz: bool, ki: int", MR,
    ("accept", "reject", "rejected"), ["0 <= ki <= 6"], timeout=120)

add("make_required.nokeys", "ki: int, pz: bool", """
menu = (None, [], ["a"])
ks = pick(menu, ki)
try:
    M = make_required(schema.dict, ks) if ks is not None else make_required(schema.dict)
except DeclarationError:
    return (ki == 2), "rejected"
return (ki != 2) and ok_validate(M, mkdict(("z", pz, 0))), "accept"
""", ("accept", "rejected"), ["0 <= ki <= 2"])

add("make_required.wrongtype", "w: " + WILD + ", ki: int", """
try:
    if ki == 0:
        make_required(w)
    elif ki == 1:
        make_required(schema.dict({"a": schema.int}), w)
    else:
        make_required(schema.int, ["a"])
except DeclarationError:
    return True, "rejected"
return (ki == 1 and w is None), "accept"
""", ("rejected", "accept"), ["0 <= ki <= 2", WPRE])

# ---- alias
add("alias.verdict", "p: int, q: int, w: " + WILD, """
T = schema.int.min(p).max(q)
AL = schema.alias("Age", T)
want = ok_validate(T, w)
ok = ok_validate(AL, w) == want and (AL == w) == want
return ok, ("accept" if want else "reject")
""", ("accept", "reject"), [WPRE])

add("alias.nested", "p: int, pa: bool, va: int, n: int, v0: int, v1: int", """
T = schema.dict({"a": schema.int.min(p), optional("l"): schema.list(schema.alias("I", schema.int.max(p)))})
AL = schema.alias("Obj", T)
v = mkdict(("a", pa, va), ("l", True, mklist(n, v0, v1)))
want = ok_validate(T, v)
ok = ok_validate(AL, v) == want and ok_validate(schema.list(AL), [v]) == want
return ok, ("accept" if want else "reject")
""", ("accept", "reject"), ["0 <= n <= 2"])

add("alias.fake.subst", "p: int, q: int, v: int, d0: int, d1: int", """
assume(p <= q)
T = schema.dict({"a": schema.int.min(p).max(q), "b": schema.bool})
AL = schema.alias("Obj", T)
with gen_env((d0, d1), (), ()) as t:
    g1 = fake(T)
with gen_env((d0, d1), (), ()) as t:
    g2 = fake(AL)
ok = g1 == g2 and ok_validate(AL, g2)
try:
    R1 = substitute(T, {"a": v})
    r1 = True
except SubstitutionError:
    r1 = False
try:
    R2 = substitute(AL, {"a": v})
    r2 = True
except SubstitutionError:
    r2 = False
ok = ok and r1 == r2
if r1 and r2:
    ok = ok and ok_validate(R2, {"a": v, "b": True}) and not ok_validate(R2, {"a": v + 1, "b": True})
return ok, ("subst" if r1 else "raised")
""", ("subst", "raised"))

# ---- indexing / iteration
add("dict.getitem.iter", "p: int, ki: int", """
A = schema.int.min(p)
B = schema.none
d = schema.dict({"a": A, optional("b"): B, ...: ...})
ok = d["a"] is A and d["b"] is B and list(d) == ["a", "b", ...] and list(d.keys()) == ["a", "b", ...]
key = pick(("a", "b", "zz", ..., optional("b"), 0), ki)
try:
    m = d[key]
except KeyError:
    return ok and ki >= 2, "keyerror"
return ok and ki < 2 and (m is A if ki == 0 else m is B), "member"
""", ("member", "keyerror"), ["0 <= ki <= 5"])

add("dict.getitem.untyped", "ki: int", """
key = pick(("a", ...), ki)
try:
    schema.dict[key]
except KeyError:
    return list(schema.dict) == [] and len(schema.dict.keys()) == 0, "keyerror"
return False, "member"
""", ("keyerror",), ["0 <= ki <= 1"])


def harnesses(tier, seed, active_kf=()):
    return list(H)
