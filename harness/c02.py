"""C02 - validation verdict equals the declared constraints.

Each harness fixes a schema *shape* (skeleton); every constraint parameter and every leaf of the
value under validation is a solver variable.  Post-condition: validate(S, v) is clean exactly when
`conforms(spec, v)` (engine/hlib.py, written from the property text), and `S == v` agrees.
"""
from engine.hgen import mk
from harness.skeletons import PRELUDE, entries


ASSUMPTIONS = [
    "structure (schema shape, list length <= 4, dict keys, nesting depth <= 3) is fixed per harness; "
    "all scalars are symbolic: ints unbounded, floats all IEEE-754 doubles, strings any Unicode "
    "with the stated length bound",
    "float range checks are claimed for non-NaN values only (NaN compares false with every bound)",
    "regex semantics are CrossHair's model of re.search on a symbolic subject with a concrete pattern",
    "uuid/datetime/date values come from finite menus selected by a symbolic index",
    "oracle `conforms` in engine/hlib.py is the trusted statement of the schema semantics",
]

BODY = """
spec = {spec}
try:
    S = build(spec)
except DeclarationError:
    raise IgnoreAttempt("declaration rejected")
val = {val}
want = conforms(spec, val)
a, b = verdicts(S, val)
return (a == want and b == want), ("accept" if want else "reject")
"""

BOUNDS = ("per harness: fixed schema/value shape; lists <= 4 elements, strings <= 3 chars (alphabet <= 3, "
          "substring <= 2), dict <= 3 keys, nesting depth <= 3; ints unbounded; floats all doubles")

FUNCS = ("validation/_validator.py:Validator.visit_*", "validation/__init__.py:validate",
         "validation/__init__.py:eq")



def harnesses(tier, seed, active_kf=()):
    out = []
    for e in entries():
        if e["tier"] == "thorough" and tier != "thorough":
            continue
        out.append(mk("C02." + e["name"], e["params"], BODY.format(spec=e["spec"], val=e["val"]),
                      covers=e["covers"], pre=e["pre"], timeout=e["timeout"], functions=FUNCS,
                      prelude=PRELUDE, bounds=BOUNDS))
    return out


def extra_checks(tier, seed, replay_dir, active_kf=()):
    """E2: exact IEEE-754 execution of the float branch (engine/fpsym.py) - see harness/fp_extra.py"""
    from harness import fp_extra
    return fp_extra.run("C02", tier, replay_dir, active_kf)
