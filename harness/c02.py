"""C02 - validation verdict equals the declared constraints.

Each harness fixes a schema *shape* (skeleton); every constraint parameter and every leaf of the
value under validation is a solver variable.  Post-condition: validate(S, v) is clean exactly when
`conforms(spec, v)` (engine/hlib.py, written from the property text), and `S == v` agrees.
"""
from engine.hgen import mk

WILD = "Union[None, bool, int, float, str, bytes]"
PRELUDE = "from typing import Union\n"

ASSUMPTIONS = [
    "structure (schema shape, list length <= 4, dict keys, nesting depth <= 3) is fixed per harness; "
    "all scalars are symbolic: ints unbounded, floats all IEEE-754 doubles, strings any Unicode "
    "with the stated length bound",
    "float range checks are claimed for non-NaN values only (NaN compares false with every bound)",
    "regex semantics are CrossHair's model of re.search on a symbolic subject with a concrete pattern",
    "uuid/datetime/date values come from finite menus selected by a symbolic index",
    "oracle `conforms` in engine/hlib.py is the trusted statement of the schema semantics",
]

BODY = """
spec = {spec}
try:
    S = build(spec)
except DeclarationError:
    raise IgnoreAttempt("declaration rejected")
val = {val}
want = conforms(spec, val)
a, b = verdicts(S, val)
return (a == want and b == want), ("accept" if want else "reject")
"""

FUNCS = ("validation/_validator.py:Validator.visit_*", "validation/__init__.py:validate",
         "validation/__init__.py:eq")


def sk(name, params, spec, val, pre=(), timeout=60, bounds="", covers=("accept", "reject"), tier="quick"):
    h = mk("C02." + name, params, BODY.format(spec=spec, val=val), covers=covers, pre=pre,
           timeout=timeout, bounds=bounds, functions=FUNCS, prelude=PRELUDE)
    h.meta["tier"] = tier
    return h


def catalogue():
    L = []
    W = "w: " + WILD
    S3 = ["len(v) <= 3"]
    # ---- scalars
    L.append(sk("int.minmax", "mn: int, mx: int, v: int", '("int", Nil, mn, mx)', "v"))
    L.append(sk("int.min", "mn: int, v: int", '("int", Nil, mn, Nil)', "v"))
    L.append(sk("int.max", "mx: int, v: int", '("int", Nil, Nil, mx)', "v"))
    L.append(sk("int.value", "x: int, v: int", '("int", x, Nil, Nil)', "v"))
    L.append(sk("int.value.minmax", "x: int, mn: int, mx: int, v: int", '("int", x, mn, mx)', "v"))
    L.append(sk("int.wild", "mn: int, " + W, '("int", Nil, mn, Nil)', "w", pre=["not isinstance(w, str) or len(w) <= 2", "not isinstance(w, bytes) or len(w) <= 2"]))
    L.append(sk("bool.value", "x: bool, " + W, '("bool", x)', "w", pre=["not isinstance(w, (str, bytes)) or len(w) <= 2"]))
    L.append(sk("bool.any", W, '("bool", Nil)', "w", pre=["not isinstance(w, (str, bytes)) or len(w) <= 2"]))
    L.append(sk("none", W, '("none",)', "w", pre=["not isinstance(w, (str, bytes)) or len(w) <= 2"]))
    L.append(sk("float.minmax", "mn: float, mx: float, v: float", '("float", Nil, mn, mx, Nil)', "v",
                pre=["v == v"]))
    L.append(sk("float.min.wild", "mn: float, " + W, '("float", Nil, mn, Nil, Nil)', "w",
                pre=["not isinstance(w, (str, bytes)) or len(w) <= 2", "not isinstance(w, float) or w == w"]))
    L.append(sk("bytes.value", "x: bytes, v: bytes", '("bytes", x)', "v", pre=["len(x) <= 3", "len(v) <= 3"]))
    L.append(sk("bytes.wild", W, '("bytes", Nil)', "w", pre=["not isinstance(w, (str, bytes)) or len(w) <= 2"]))
    # ---- str
    L.append(sk("str.len", "n: int, v: str", '("str", Nil, (n, Nil, Nil), Nil, Nil, Nil)', "v", pre=S3))
    L.append(sk("str.minlen", "n: int, v: str", '("str", Nil, (Nil, n, Nil), Nil, Nil, Nil)', "v", pre=S3))
    L.append(sk("str.maxlen", "n: int, v: str", '("str", Nil, (Nil, Nil, n), Nil, Nil, Nil)', "v", pre=S3))
    L.append(sk("str.lenrange", "a: int, b: int, v: str", '("str", Nil, (Nil, a, b), Nil, Nil, Nil)', "v", pre=S3))
    L.append(sk("str.value", "x: str, v: str", '("str", x, NOLEN, Nil, Nil, Nil)', "v",
                pre=["len(x) <= 3", "len(v) <= 3"]))
    L.append(sk("str.alphabet", "al: str, v: str", '("str", Nil, NOLEN, al, Nil, Nil)', "v",
                pre=["len(al) <= 3", "len(v) <= 3"], timeout=90))
    L.append(sk("str.contains", "sub: str, v: str", '("str", Nil, NOLEN, Nil, sub, Nil)', "v",
                pre=["len(sub) <= 2", "len(v) <= 3"]))
    L.append(sk("str.alpha.contains.len", "al: str, sub: str, a: int, b: int, v: str",
                '("str", Nil, (Nil, a, b), al, sub, Nil)', "v",
                pre=["len(al) <= 2", "len(sub) <= 1", "len(v) <= 3"], timeout=120))
    L.append(sk("str.wild", "n: int, " + W, '("str", Nil, (Nil, n, Nil), Nil, Nil, Nil)', "w",
                pre=["not isinstance(w, (str, bytes)) or len(w) <= 2"]))
    for i, pat in enumerate([r"^a+$", r"[0-9]{2}", r"b|cd", r"^\\w?x"]):
        L.append(sk("str.regex%d" % i, "v: str", '("str", Nil, NOLEN, Nil, Nil, r"%s")' % pat, "v",
                    pre=["len(v) <= 3"], timeout=90))
    # ---- menu types
    L.append(sk("uuid4", "i: int, j: int", '("uuid4", pick(UUIDS4, i, Nil))', "pick(UUID_VALUES, j)"))
    L.append(sk("datetime", "i: int, j: int", '("datetime", pick(DATETIMES, i, Nil))', "pick(DT_VALUES, j)"))
    L.append(sk("date", "i: int, j: int", '("date", pick(DATES, i, Nil))', "pick(DT_VALUES, j)"))
    # ---- lists
    INT_A = '("int", Nil, a, Nil)'
    INT_B = '("int", Nil, Nil, b)'
    L4 = "n: int, v0: int, v1: int, v2: int, v3: int"
    V4 = "mklist(n, v0, v1, v2, v3)"
    N4 = ["0 <= n <= 4"]
    L.append(sk("list.untyped.len", "k: int, n: int", '("list", None, (k, Nil, Nil))', "mklist(n, 0, None, 'x', [])", pre=N4))
    L.append(sk("list.untyped.range", "p: int, q: int, n: int", '("list", None, (Nil, p, q))', "mklist(n, 0, None, 'x', [])", pre=N4))
    L.append(sk("list.typed", "a: int, " + L4, '("list_t", %s, NOLEN)' % INT_A, V4, pre=N4))
    L.append(sk("list.typed.len", "a: int, p: int, q: int, " + L4, '("list_t", %s, (Nil, p, q))' % INT_A, V4, pre=N4))
    L.append(sk("list.typed.maxlen", "a: int, q: int, " + L4, '("list_t", %s, (Nil, Nil, q))' % INT_A, V4, pre=N4))
    L.append(sk("list.exact", "a: int, b: int, " + L4, '("list_e", [%s, %s], NOLEN)' % (INT_A, INT_B), V4, pre=N4))
    L.append(sk("list.exact.empty", "n: int", '("list_e", [], NOLEN)', "mklist(n, 0, 1)", pre=["0 <= n <= 2"]))
    L.append(sk("list.head", "a: int, b: int, " + L4, '("list_e", [%s, %s, E], NOLEN)' % (INT_A, INT_B), V4, pre=N4))
    L.append(sk("list.head1.len", "a: int, k: int, " + L4, '("list_e", [%s, E], (k, Nil, Nil))' % INT_A, V4, pre=N4))
    L.append(sk("list.tail", "a: int, b: int, " + L4, '("list_e", [E, %s, %s], NOLEN)' % (INT_A, INT_B), V4, pre=N4))
    L.append(sk("list.tail1.minlen", "a: int, k: int, " + L4, '("list_e", [E, %s], (Nil, k, Nil))' % INT_A, V4, pre=N4))
    L.append(sk("list.body", "a: int, b: int, " + L4, '("list_e", [E, %s, %s, E], NOLEN)' % (INT_A, INT_B), V4, pre=N4, timeout=90))
    L.append(sk("list.body1.maxlen", "a: int, k: int, " + L4, '("list_e", [E, %s, E], (Nil, Nil, k))' % INT_A, V4, pre=N4))
    L.append(sk("list.onlyellipsis", "n: int", '("list_e", [E], NOLEN)', "mklist(n, 0, 'x')", pre=["0 <= n <= 2"], covers=("accept",)))
    L.append(sk("list.typed.wild", "a: int, v0: int, " + W, '("list_t", %s, NOLEN)' % INT_A, "[v0, w]",
                pre=["not isinstance(w, (str, bytes)) or len(w) <= 2"]))
    L.append(sk("list.wild", "a: int, " + W, '("list_t", %s, NOLEN)' % INT_A, "w",
                pre=["not isinstance(w, (str, bytes)) or len(w) <= 2"], covers=("reject",)))
    # ---- dicts
    D = '("dict", [("a", False, %s), ("b", True, ("str", Nil, (Nil, k, Nil), Nil, Nil, Nil))], %%s)' % INT_A
    DP = "a: int, k: int, pa: bool, pb: bool, px: bool, va: int, vb: str"
    DV = "mkdict(('a', pa, va), ('b', pb, vb), ('x', px, 0))"
    L.append(sk("dict.strict", DP, D % "False", DV, pre=["len(vb) <= 2"]))
    L.append(sk("dict.relaxed", DP, D % "True", DV, pre=["len(vb) <= 2"]))
    L.append(sk("dict.untyped", "pa: bool, " + W, '("dict", None)', "mkdict(('a', pa, w))",
                pre=["not isinstance(w, (str, bytes)) or len(w) <= 2"], covers=("accept",)))
    L.append(sk("dict.empty", "pa: bool", '("dict", [], False)', "mkdict(('a', pa, 0))"))
    L.append(sk("dict.onlyrelaxed", "pa: bool", '("dict", [], True)', "mkdict(('a', pa, 0))", covers=("accept",)))
    L.append(sk("dict.wild.member", "a: int, k: int, pb: bool, " + W, D % "False", "mkdict(('a', True, w), ('b', pb, 'zz'))",
                pre=["not isinstance(w, (str, bytes)) or len(w) <= 2"]))
    L.append(sk("dict.wild", "a: int, k: int, " + W, D % "False", "w",
                pre=["not isinstance(w, (str, bytes)) or len(w) <= 2"], covers=("reject",)))
    L.append(sk("dict.intkeys", "a: int, p0: bool, p1: bool, v0: int, v1: int",
                '("dict", [(0, False, %s), (1, True, %s)], False)' % (INT_A, INT_A), "mkdict((0, p0, v0), (1, p1, v1))"))
    # ---- nesting
    NEST = '("dict", [("r", False, ("list_t", ("dict", [("id", False, %s), ("t", True, ("str", Nil, (Nil, Nil, k), Nil, Nil, Nil))], False), (Nil, p, Nil)))], True)' % INT_A
    L.append(sk("nest.dict.list.dict", "a: int, k: int, p: int, n: int, i0: int, i1: int, pt: bool, t: str, px: bool",
                NEST, "{'r': mklist(n, mkdict(('id', True, i0), ('t', pt, t)), mkdict(('id', True, i1), ('x', px, 0)))}",
                pre=["0 <= n <= 2", "len(t) <= 2"], timeout=120))
    L.append(sk("nest.list.list", "a: int, n: int, m: int, v0: int, v1: int, v2: int",
                '("list_e", [E, ("list_e", [%s, E], NOLEN)], NOLEN)' % INT_A,
                "mklist(n, [v2], mklist(m, v0, v1))", pre=["0 <= n <= 2", "0 <= m <= 2"]))
    # ---- any / alias
    ANY = '("any", [%s, ("str", Nil, (k, Nil, Nil), Nil, Nil, Nil), ("none",)])' % INT_A
    L.append(sk("any.3", "a: int, k: int, " + W, ANY, "w", pre=["not isinstance(w, (str, bytes)) or len(w) <= 2"]))
    L.append(sk("any.empty", W, '("any", None)', "w", pre=["not isinstance(w, (str, bytes)) or len(w) <= 2"], covers=("accept",)))
    L.append(sk("any.nested", "a: int, b: int, v: int", '("any", [%s, ("any", [%s, ("none",)])])' % (INT_A, INT_B), "v", covers=("accept",)))
    L.append(sk("any.in.list", "a: int, b: int, n: int, v0: int, v1: int",
                '("list_t", ("any", [("int", Nil, a, Nil), ("int", Nil, Nil, b)]), NOLEN)', "mklist(n, v0, v1)", pre=["0 <= n <= 2"]))
    L.append(sk("alias", "a: int, b: int, " + W, '("alias", "T", ("int", Nil, a, b))', "w",
                pre=["not isinstance(w, (str, bytes)) or len(w) <= 2"]))
    L.append(sk("alias.in.dict", "a: int, pa: bool, va: int",
                '("dict", [("a", True, ("alias", "T", %s))], False)' % INT_A, "mkdict(('a', pa, va))"))
    return L


def harnesses(tier, seed, active_kf=()):
    return catalogue()
