"""C04 - substitution pins the given value into the schema."""
from harness.subst import harnesses_for

ASSUMPTIONS = [
    "skeletons of harness/subst.py; v (substituted) and w (probe) have independent symbolic leaves",
    "'agrees' (engine/hlib.py): scalars ==, floats within the documented isclose tolerance, lists element-wise "
    "with equal length, dicts on every key given in v",
    "fake(R) runs under the TapeRandom stub (4 int draws, 2 char draws, small default caps)",
    "unspecified keys: R.props.keys[k] must equal S.props.keys[k] (schema and optionality) for k not in v",
]

POST = """
if conforms(spec, v) and not ok_validate(R, v):
    return False, "result rejects the conforming substituted value"
acc = ok_validate(R, w)
if acc and not agrees(w, v):
    return False, "result accepts a value that differs at a substituted position"
with gen_env((d0, d1, d2, d3), {chars}, (), small=True) as t:
    g = fake(R)
if not agrees(g, v):
    return False, "generated value differs at a substituted position"
if not keeps_unspecified(S, R, v):
    return False, "an unspecified key lost its schema or optionality"
return True, ("waccept" if acc else "subst")
"""


def _covers(c):
    return tuple(x for x in c if x != "subst") + (("waccept",) if "subst" in c else ())


harnesses = harnesses_for("C04", POST, _covers)


def extra_checks(tier, seed, replay_dir, active_kf=()):
    """E2: exact IEEE-754 execution of the float branch (engine/fpsym.py) - see harness/fp_extra.py"""
    from harness import fp_extra
    return fp_extra.run("C04", tier, replay_dir, active_kf)
