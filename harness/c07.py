"""C07 - schemas are immutable values and all operations on them are pure.

Inductive step instead of histories: from a pool of schemas with symbolic parameters, ONE public operation
with symbolic arguments is executed; every object of the pool, every argument value and d42's module-level
visitor singletons must have the same deep fingerprint afterwards.  Since every operation preserves every
existing object, any interleaving does.  Aliasing: a caller-owned list/dict that was passed in is mutated
afterwards by a solver-chosen mutation; the schema built from it must not change.
"""
from engine.hgen import mk

WILD = "Union[None, bool, int, float, str, bytes]"
PRELUDE = "from typing import Union\n"
SB = "not isinstance({0}, (str, bytes)) or len({0}) <= 2"

ASSUMPTIONS = [
    "pool of 5 schemas (dict with optional/relaxed keys and nested list, head-list, any, str, alias) with symbolic parameters",
    "deep fingerprint = structure of every registry/list/dict reachable from an object with the identity of every leaf; "
    "visitor singletons: identity and contents of every attribute",
    "one operation per harness (inductive step); histories follow by induction because every step preserves every object",
    "aliasing mutations: append / pop / setitem / clear / insert (lists), setitem-new / pop / setitem-old / clear (dicts)",
    "determinism: the same operation on equal inputs before and after an unrelated operation gives equal results",
]
BOUNDS = "pool of 5 schema shapes; one operation with symbolic arguments per harness; strings <= 2"
FUNCS = ("declaration/_props.py:Props.set/update", "declaration/types/*.py", "substitution/_substitutor.py",
         "validation/__init__.py", "generation/__init__.py", "utils/_make_required.py", "utils/_from_native.py", "utils/_rollout.py")

POOLP = "p: int, n: int, al: str, x: int, rel: bool"
POOLPRE = ["len(al) <= 2"]
POOL = "A, B, C, D, E = pool(p, n, al, x, rel)\n"

H = []


def op(name, params, setup, action, pre=(), covers=("done",), timeout=90, frozen="A, B, C, D, E"):
    body = POOL + setup + "\nwith Frozen(%s) as fz:\n" % frozen
    body += "".join("    " + ln + "\n" for ln in action.strip("\n").split("\n"))
    body += "why = fz.problem()\nreturn (why == ''), (why or tag)\n"
    H.append(mk("C07." + name, POOLP + (", " + params if params else ""), body, covers=covers, pre=POOLPRE + list(pre),
                timeout=timeout, prelude=PRELUDE, functions=FUNCS, bounds=BOUNDS))


VAL = "v = mkdict(('a', pa, va), ('b', pb, mklist(k, s0)), ('x', px, 0))\n"
VALP = "pa: bool, va: int, pb: bool, k: int, s0: str, px: bool"
VALPRE = ["0 <= k <= 1", "len(s0) <= 1"]

op("validate", VALP, VAL, """
r1 = validate(A, v)
r2 = validate(C, v)
tag = "done"
""", VALPRE, frozen="A, B, C, D, E, v")

op("validate_or_fail.eq", VALP, VAL, """
try:
    validate_or_fail(A, v)
except ValidationException:
    pass
e = (A == v) or (C != v)
tag = "done"
""", VALPRE, frozen="A, B, C, D, E, v")

op("validate.defaultdict", "pa: bool, va: int", "v = collections.defaultdict(int)\nif pa:\n    v['a'] = va\nn0 = len(v)\n", """
validate(A, v)
A == v
try:
    substitute(A, v)
except SubstitutionError:
    pass
tag = "done"
""", frozen="A, B, C, D, E")
H[-1].source = H[-1].source.replace("why = fz.problem()\n", "why = fz.problem() or ('' if len(v) == n0 else 'validate inserted keys into the value')\n")

op("represent", "", "", """
texts = [represent(s) for s in (A, B, C, D, E)] + [repr(A)]
tag = "done"
""")

op("fake", "d0: int, d1: int, d2: int, d3: int, c0: str, c1: str", "", """
with gen_env((d0, d1, d2, d3), (c0, c1), ()) as t:
    g = [fake(A), ~B, fake(C)]
tag = "done"
""", ["len(c0) == 1 and len(c1) == 1"])

op("substitute", VALP, VAL, """
try:
    R = substitute(A, v)
    tag = "subst"
except SubstitutionError:
    tag = "raised"
try:
    R2 = C % v
except SubstitutionError:
    pass
""", VALPRE, covers=("subst", "raised"), frozen="A, B, C, D, E, v")

op("substitute.list", "k: int, v0: int, v1: int, w: " + WILD, "v = mklist(k, v0, v1, w)\n", """
try:
    R = B % v
    tag = "subst"
except SubstitutionError:
    tag = "raised"
try:
    R2 = E % v
except SubstitutionError:
    pass
""", ["0 <= k <= 3", SB.format("w")], covers=("subst", "raised"), frozen="A, B, C, D, E, v")

op("add.or", "q: int", "A2 = schema.dict({'a': schema.int.max(q), 'c': schema.none})\n", """
S1 = A + A2
S2 = A2 + A
U = A | B | C
U2 = C | schema.any(D, E)
tag = "done"
""", frozen="A, B, C, D, E, A2")

op("make_required", "ki: int", "keys = pick((None, [], ['a'], ['b'], ['a', 'b'], ('b',), {'a'}, ['zz']), ki)\n", """
try:
    M = make_required(A, keys) if keys is not None else make_required(A)
    tag = "done"
except DeclarationError:
    tag = "rejected"
""", ["0 <= ki <= 7"], covers=("done", "rejected"), frozen="A, B, C, D, E, keys")

op("getitem.iter", "ki: int", "key = pick(('a', 'b', 'zz', ...), ki)\n", """
try:
    m = A[key]
    tag = "member"
except KeyError:
    tag = "keyerror"
ks = list(A) + list(A.keys()) + list(C) + list(schema.any)
""", ["0 <= ki <= 3"], covers=("member", "keyerror"))

op("refine.ok.or.raise", "a0: %s, m0: int, sel: int" % WILD, "", """
arg = arg_of(a0, m0)
try:
    if sel == 0:
        D.contains(arg)
    elif sel == 1:
        D.len(arg)
    elif sel == 2:
        A(arg)
    elif sel == 3:
        B.len(arg)
    elif sel == 4:
        C(arg)
    elif sel == 5:
        schema.list(B).len(arg, ...)
    else:
        schema.int.min(p).max(arg)
    tag = "ok"
except DeclarationError:
    tag = "raised"
""", ["0 <= sel <= 6"], covers=("ok", "raised"), timeout=120)

op("from_native.rollout", "k: int, v0: int, s0: str", "v = {'a': mklist(k, v0, {'s': s0}), 'b.c': v0, 'b.d.e': s0}\n", """
S = from_native(v)
r = rollout(v)
r2 = rollout({optional('b.c'): A, 'b.d': B, ...: ...})
tag = "done"
""", ["0 <= k <= 2", "len(s0) <= 2"], frozen="A, B, C, D, E, v")

# ---- aliasing: mutate the caller's container afterwards
ALIAS = []


def alias(name, params, build, probe, pre=(), timeout=90):
    body = POOL + build + """
text0 = represent(S)
with notrace():
    fp0 = deep_fp(S)
acc0 = ok_validate(S, probe)
mutate(c, sel, item)
with notrace():
    fp1 = deep_fp(S)
ok = represent(S) == text0 and fp1 == fp0 and ok_validate(S, probe) == acc0
return ok, "mutated"
""".replace("probe", probe)
    H.append(mk("C07.alias." + name, POOLP + ", sel: int, " + params, body, covers=("mutated",), pre=POOLPRE + ["0 <= sel <= 4"] + list(pre),
                timeout=timeout, prelude=PRELUDE, functions=FUNCS, bounds=BOUNDS))


alias("list.elements", "k: int, v0: int", "c = mklist(k, schema.int.min(p), D)\nitem = schema.none\nS = schema.list(c)\n", "[v0]", ["0 <= k <= 2"])
alias("list.elements.ellipsis", "v0: int", "c = [schema.int.min(p), ...]\nitem = schema.none\nS = schema.list(c)\n", "[v0, None]")
alias("dict.keys", "v0: int", "c = {'a': schema.int.min(p), optional('b'): D}\nitem = schema.none\nS = schema.dict(c)\n", "{'a': v0}")
alias("any.types", "v0: int", "c = [schema.int.min(p), D]\nitem = schema.none\nS = schema.any(*c)\n", "v0")
alias("from_native.list", "k: int, v0: int, v1: int", "c = mklist(k, v0, v1)\nitem = 7\nouter = {'l': c, 'n': [c]}\nS = from_native(outer)\n", "{'l': [v0], 'n': [[v0]]}", ["0 <= k <= 2"])
alias("from_native.dict", "v0: int", "c = {'a': v0}\nitem = 7\nouter = [c, {'d': c}]\nS = from_native(outer)\n", "[{'a': v0}, {'d': {'a': v0}}]")
alias("substitute.list", "k: int, v0: int, v1: int", "c = mklist(k, v0, v1)\nitem = 7\ntry:\n    S = substitute(schema.dict({'l': schema.list(schema.int), 'm': schema.list}), {'l': c, 'm': c})\nexcept SubstitutionError:\n    raise IgnoreAttempt('subst')\n",
      "{'l': [v0], 'm': [v0]}", ["0 <= k <= 2"])
alias("substitute.dict", "v0: int", "c = {'a': v0}\nitem = 7\ntry:\n    S = substitute(schema.dict({'o': schema.dict, 'p': A, 'q': schema.any}), {'o': c, 'p': c, 'q': c})\nexcept SubstitutionError:\n    raise IgnoreAttempt('subst')\n",
      "{'o': {'a': v0}, 'p': {'a': v0}, 'q': {'a': v0}}")
alias("make_required.keys", "v0: int", "c = ['b']\nitem = 'a'\nS = make_required(schema.dict({optional('a'): schema.int, optional('b'): schema.none}), c)\n", "{'b': None}")
alias("rollout.keys", "v0: int", "c = {'o.a': schema.int.min(p), 'o.b': D}\nitem = schema.none\nS = schema.dict({'o': schema.dict(rollout(c)['o'])})\n", "{'o': {'a': v0, 'b': ''}}")

# ---- determinism regardless of what ran in between
H.append(mk("C07.determinism", POOLP + ", " + VALP + ", d0: int, d1: int", POOL + VAL + """
def run():
    try:
        R = substitute(A, v)
        rs = represent(R)
    except SubstitutionError:
        rs = "raised"
    return (represent(A), [type(e).__name__ for e in validate(C, v).get_errors()], rs, represent(A + schema.dict({'q': B})), A == A)
r1 = run()
with gen_env((d0, d1), (), ()) as t:
    try:
        fake(B)
        validate(D, v)
        make_required(A)
        B % [x]
        schema.str.len(n).len(n)
    except (DeclarationError, SubstitutionError):
        pass
r2 = run()
return (r1 == r2), "same"
""", covers=("same",), pre=POOLPRE + VALPRE, timeout=120, prelude=PRELUDE, functions=FUNCS, bounds=BOUNDS))


HIST = """
vi, ui = conc(vi, 7), conc(ui, 7)
MENU = (True, 1.0, False, 0.0, 1, 0, -0.0, "1")
with notrace():          # concrete menu members; real functools caches (the job runs with real_lru_cache)
    reset_module_state()
    r1 = represent(from_native({{"k": MENU[vi], "l": [MENU[vi]]}}))
    ok1 = ok_validate(from_native(MENU[vi]), MENU[vi])
    reset_module_state()
    from_native(MENU[ui])
    substitute(schema.dict, {{"x": MENU[ui]}})
    r2 = represent(from_native({{"k": MENU[vi], "l": [MENU[vi]]}}))
    ok2 = ok_validate(from_native(MENU[vi]), MENU[vi])
return (r1 == r2 and ok1 and ok2), "same"
"""

SUBST_HIST = """
vi, ui, oi = conc(vi, 8), conc(ui, 8), conc(oi, 3)
MENU = (True, 1.0, False, 0.0, 1, 0, -0.0, "1", b"1")
with notrace():          # concrete menu members; real functools caches (the job runs with real_lru_cache)
    def results(x):
        out = []
        for S, val in ((schema.list, [x]), (schema.dict, {{"k": x}}), (schema.list([schema.int, ...]), [3, x]),
                       (schema.dict({{"a": schema.int, ...: ...}}), {{"a": 3, "b": x}}), (schema.any, x),
                       (schema.list(schema.any), [x, x])):
            try:
                R = substitute(S, val)
                out.append((represent(R), ok_validate(R, val)))
            except SubstitutionError:
                out.append(("raised", True))
        return out
    reset_module_state()
    r1 = results(MENU[vi])
    reset_module_state()
    y = MENU[ui]
    try:                 # an earlier, unrelated operation with a value that is ==/hash-equal or not
        if oi == 0:
            substitute(schema.list, [y])
        elif oi == 1:
            substitute(schema.dict, {{"x": y, "y": [y]}})
        elif oi == 2:
            substitute(schema.any, y)
            validate(schema.any, y)
        else:
            substitute(schema.list([schema.any, ...]), [y, y])
            from_native(y)
    except SubstitutionError:
        pass
    r2 = results(MENU[vi])
    accepted = all(ok for _, ok in r1) and all(ok for _, ok in r2)
return (r1 == r2 and accepted), "same"
"""

VALID_HIST = """
vi, ui, si = conc(vi, 8), conc(ui, 8), conc(si, 7)
MENU = (True, 1.0, False, 0.0, 1, 0, -0.0, "1", b"1")
with notrace():          # concrete menu members; real functools caches (the job runs with real_lru_cache)
    def build():
        return (schema.int, schema.float, schema.bool, schema.any(schema.int(1), schema.float(0.0)), schema.list(schema.int),
                schema.dict({{"k": schema.float, ...: ...}}), schema.int(1) | schema.bool(False), schema.str("1"))[si]
    def verdicts(S, x):
        vals = (x, [x], [x, x], {{"k": x}}, {{"k": 1.5, "x": x}})
        return ([sorted(type(e).__name__ for e in validate(S, v).get_errors()) for v in vals], [S == v for v in vals],
                represent(S), represent(from_native(x)))
    reset_module_state()
    S = build()
    r1 = verdicts(S, MENU[vi])
    reset_module_state()
    S2 = build()
    y = MENU[ui]
    verdicts(S2, y)      # an earlier validation of a value that may be ==/hash-equal to the one under test
    validate(schema.any, y)
    r2 = verdicts(S2, MENU[vi])
    r3 = verdicts(build(), MENU[vi])
return (r1 == r2 and r1 == r3), "same"
"""

REPR_HIST = """
A, B, C, D, E = pool(p, n, al, x, rel)
inner = schema.dict({"a": A, "b": schema.list([B, ...])})
outer = schema.dict({"o": inner, "l": schema.list([inner])})
fresh_inner = represent(schema.dict({"a": A, "b": schema.list([B, ...])}))
fresh_outer = represent(schema.dict({"o": schema.dict({"a": A, "b": schema.list([B, ...])}), "l": schema.list([schema.dict({"a": A, "b": schema.list([B, ...])})])}))
if first:
    t1 = represent(inner)
    t2 = represent(outer)
else:
    t2 = represent(outer)
    t1 = represent(inner)
try:
    inner({})
except DeclarationError:
    pass
return (t1 == fresh_inner and t2 == fresh_outer and represent(inner) == fresh_inner and represent(outer) == fresh_outer), "same"
"""


def harnesses(tier, seed, active_kf=()):
    out = list(H)
    out.append(mk("C07.history.from_native", "vi: int, ui: int", HIST.replace("{{", "{").replace("}}", "}"), covers=("same",),
                  pre=["0 <= vi <= 7", "0 <= ui <= 7"], timeout=120, functions=FUNCS, bounds=BOUNDS, meta={"real_lru_cache": True}))
    out.append(mk("C07.history.substitute", "vi: int, ui: int, oi: int", SUBST_HIST.replace("{{", "{").replace("}}", "}"), covers=("same",),
                  pre=["0 <= vi <= 8", "0 <= ui <= 8", "0 <= oi <= 3"], timeout=240, functions=FUNCS, bounds=BOUNDS,
                  meta={"real_lru_cache": True}))
    out.append(mk("C07.history.validate", "vi: int, ui: int, si: int", VALID_HIST.replace("{{", "{").replace("}}", "}"), covers=("same",),
                  pre=["0 <= vi <= 8", "0 <= ui <= 8", "0 <= si <= 7"], timeout=300, functions=FUNCS, bounds=BOUNDS,
                  meta={"real_lru_cache": True}))
    out.append(mk("C07.history.represent", POOLP + ", first: bool", REPR_HIST, covers=("same",), pre=POOLPRE, timeout=120,
                  functions=FUNCS, bounds=BOUNDS))
    return out
