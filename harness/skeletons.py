"""Skeleton catalogue shared by C02 (verdict), C03 (error truth), C08 (totality), ...

An entry fixes a schema shape and a value shape; all scalars are harness parameters (solver
variables).  `spec` and `val` are Python expressions over the parameters (see engine/hlib.py for
the spec-tree format, mklist/mkdict/pick).
"""

WILD = "Union[None, bool, int, float, str, bytes]"
PRELUDE = "from typing import Union\n"


def ent(name, params, spec, val, pre=(), timeout=60, covers=("accept", "reject"), tier="quick", pre_light=None):
    """pre_light: tighter bounds used by the consumers whose post-condition is costlier than C02's."""
    return dict(name=name, params=params, spec=spec, val=val, pre=list(pre), timeout=timeout,
                covers=tuple(covers), tier=tier, pre_light=list(pre_light if pre_light is not None else pre))


def entries():
    L = []
    W = "w: " + WILD
    S3 = ["len(v) <= 3"]
    # ---- scalars
    L.append(ent("int.minmax", "mn: int, mx: int, v: int", '("int", Nil, mn, mx)', "v"))
    L.append(ent("int.min", "mn: int, v: int", '("int", Nil, mn, Nil)', "v"))
    L.append(ent("int.max", "mx: int, v: int", '("int", Nil, Nil, mx)', "v"))
    L.append(ent("int.value", "x: int, v: int", '("int", x, Nil, Nil)', "v"))
    L.append(ent("int.value.minmax", "x: int, mn: int, mx: int, v: int", '("int", x, mn, mx)', "v"))
    L.append(ent("int.wild", "mn: int, " + W, '("int", Nil, mn, Nil)', "w", pre=["not isinstance(w, str) or len(w) <= 2", "not isinstance(w, bytes) or len(w) <= 2"]))
    L.append(ent("bool.value", "x: bool, " + W, '("bool", x)', "w", pre=["not isinstance(w, (str, bytes)) or len(w) <= 2"]))
    L.append(ent("bool.any", W, '("bool", Nil)', "w", pre=["not isinstance(w, (str, bytes)) or len(w) <= 2"]))
    L.append(ent("none", W, '("none",)', "w", pre=["not isinstance(w, (str, bytes)) or len(w) <= 2"]))
    L.append(ent("float.minmax", "mn: float, mx: float, v: float", '("float", Nil, mn, mx, Nil)', "v"))
    L.append(ent("float.min.wild", "mn: float, " + W, '("float", Nil, mn, Nil, Nil)', "w",
                pre=["not isinstance(w, (str, bytes)) or len(w) <= 2"]))
    L.append(ent("bytes.value", "x: bytes, v: bytes", '("bytes", x)', "v", pre=["len(x) <= 3", "len(v) <= 3"]))
    L.append(ent("bytes.wild", W, '("bytes", Nil)', "w", pre=["not isinstance(w, (str, bytes)) or len(w) <= 2"]))
    # ---- str
    L.append(ent("str.len", "n: int, v: str", '("str", Nil, (n, Nil, Nil), Nil, Nil, Nil)', "v", pre=S3))
    L.append(ent("str.minlen", "n: int, v: str", '("str", Nil, (Nil, n, Nil), Nil, Nil, Nil)', "v", pre=S3))
    L.append(ent("str.maxlen", "n: int, v: str", '("str", Nil, (Nil, Nil, n), Nil, Nil, Nil)', "v", pre=S3))
    L.append(ent("str.lenrange", "a: int, b: int, v: str", '("str", Nil, (Nil, a, b), Nil, Nil, Nil)', "v", pre=S3))
    L.append(ent("str.value", "x: str, v: str", '("str", x, NOLEN, Nil, Nil, Nil)', "v",
                pre=["len(x) <= 3", "len(v) <= 3"]))
    L.append(ent("str.alphabet", "al: str, v: str", '("str", Nil, NOLEN, al, Nil, Nil)', "v",
                pre=["len(al) <= 3", "len(v) <= 3"], timeout=90))
    L.append(ent("str.alphabet.menu", "ai: int, v: str", '("str", Nil, NOLEN, pick(ALPHA_MENU, ai), Nil, Nil)', "v",
                pre=["0 <= ai <= 8", "len(v) <= 3"], timeout=120, pre_light=["0 <= ai <= 8", "len(v) <= 2"]))
    L.append(ent("str.alphabet.menu.len", "ai: int, n: int, v: str", '("str", Nil, (n, Nil, Nil), pick(ALPHA_MENU, ai), Nil, Nil)', "v",
                pre=["0 <= ai <= 8", "len(v) <= 2"], timeout=120, pre_light=["0 <= ai <= 8", "len(v) <= 2"]))
    L.append(ent("str.contains", "sub: str, v: str", '("str", Nil, NOLEN, Nil, sub, Nil)', "v",
                pre=["len(sub) <= 2", "len(v) <= 3"]))
    L.append(ent("str.alpha.contains.len", "al: str, sub: str, a: int, b: int, v: str",
                '("str", Nil, (Nil, a, b), al, sub, Nil)', "v",
                pre=["len(al) <= 2", "len(sub) <= 1", "len(v) <= 3"], timeout=120,
                 pre_light=["len(al) <= 2", "len(sub) <= 1", "len(v) <= 2"]))
    L.append(ent("str.wild", "n: int, " + W, '("str", Nil, (Nil, n, Nil), Nil, Nil, Nil)', "w",
                pre=["not isinstance(w, (str, bytes)) or len(w) <= 2"]))
    for i, pat in enumerate([r"^a+$", r"[0-9]{2}", r"b|cd", r"^\\w?x"]):
        L.append(ent("str.regex%d" % i, "v: str", '("str", Nil, NOLEN, Nil, Nil, r"%s")' % pat, "v",
                    pre=["len(v) <= 3"], timeout=90))
    # ---- menu types
    L.append(ent("uuid4", "i: int, j: int", '("uuid4", pick(UUIDS4, i, Nil))', "pick(UUID_VALUES, j)"))
    L.append(ent("datetime", "i: int, j: int", '("datetime", pick(DATETIMES, i, Nil))', "pick(DT_VALUES, j)"))
    L.append(ent("date", "i: int, j: int", '("date", pick(DATES, i, Nil))', "pick(DT_VALUES, j)"))
    # ---- lists
    INT_A = '("int", Nil, a, Nil)'
    INT_B = '("int", Nil, Nil, b)'
    L4 = "n: int, v0: int, v1: int, v2: int, v3: int"
    V4 = "mklist(n, v0, v1, v2, v3)"
    N4 = ["0 <= n <= 4"]
    L.append(ent("list.untyped.len", "k: int, n: int", '("list", None, (k, Nil, Nil))', "mklist(n, 0, None, 'x', [])", pre=N4))
    L.append(ent("list.untyped.range", "p: int, q: int, n: int", '("list", None, (Nil, p, q))', "mklist(n, 0, None, 'x', [])", pre=N4))
    L.append(ent("list.typed", "a: int, " + L4, '("list_t", %s, NOLEN)' % INT_A, V4, pre=N4))
    L.append(ent("list.typed.len", "a: int, p: int, q: int, " + L4, '("list_t", %s, (Nil, p, q))' % INT_A, V4, pre=N4))
    L.append(ent("list.typed.maxlen", "a: int, q: int, " + L4, '("list_t", %s, (Nil, Nil, q))' % INT_A, V4, pre=N4))
    L.append(ent("list.exact", "a: int, b: int, " + L4, '("list_e", [%s, %s], NOLEN)' % (INT_A, INT_B), V4, pre=N4))
    L.append(ent("list.exact.empty", "n: int", '("list_e", [], NOLEN)', "mklist(n, 0, 1)", pre=["0 <= n <= 2"]))
    L.append(ent("list.head", "a: int, b: int, " + L4, '("list_e", [%s, %s, E], NOLEN)' % (INT_A, INT_B), V4, pre=N4))
    L.append(ent("list.head1.len", "a: int, k: int, " + L4, '("list_e", [%s, E], (k, Nil, Nil))' % INT_A, V4, pre=N4))
    L.append(ent("list.tail", "a: int, b: int, " + L4, '("list_e", [E, %s, %s], NOLEN)' % (INT_A, INT_B), V4, pre=N4))
    L.append(ent("list.tail1.minlen", "a: int, k: int, " + L4, '("list_e", [E, %s], (Nil, k, Nil))' % INT_A, V4, pre=N4))
    L.append(ent("list.body", "a: int, b: int, " + L4, '("list_e", [E, %s, %s, E], NOLEN)' % (INT_A, INT_B), V4, pre=N4, timeout=90))
    L.append(ent("list.body1.maxlen", "a: int, k: int, " + L4, '("list_e", [E, %s, E], (Nil, Nil, k))' % INT_A, V4, pre=N4))
    L.append(ent("list.onlyellipsis", "n: int", '("list_e", [E], NOLEN)', "mklist(n, 0, 'x')", pre=["0 <= n <= 2"], covers=("accept",)))
    L.append(ent("list.typed.wild", "a: int, v0: int, " + W, '("list_t", %s, NOLEN)' % INT_A, "[v0, w]",
                pre=["not isinstance(w, (str, bytes)) or len(w) <= 2"]))
    L.append(ent("list.wild", "a: int, " + W, '("list_t", %s, NOLEN)' % INT_A, "w",
                pre=["not isinstance(w, (str, bytes)) or len(w) <= 2"], covers=("reject",)))
    # ---- dicts
    D = '("dict", [("a", False, %s), ("b", True, ("str", Nil, (Nil, k, Nil), Nil, Nil, Nil))], %%s)' % INT_A
    DP = "a: int, k: int, pa: bool, pb: bool, px: bool, va: int, vb: str"
    DV = "mkdict(('a', pa, va), ('b', pb, vb), ('x', px, 0))"
    L.append(ent("dict.strict", DP, D % "False", DV, pre=["len(vb) <= 2"]))
    L.append(ent("dict.relaxed", DP, D % "True", DV, pre=["len(vb) <= 2"]))
    L.append(ent("dict.relaxed.first", DP, D % '"first"', DV, pre=["len(vb) <= 2"]))
    L.append(ent("dict.relaxed.mid", DP, D % '"mid"', DV, pre=["len(vb) <= 2"]))
    D3 = '("dict", [("a", False, %s), ("b", True, ("none",)), ("c", True, ("bool", Nil))], %%s)' % INT_A
    L.append(ent("dict.3keys", "a: int, pa: bool, pb: bool, pc: bool, px: bool, py: bool, va: int, vc: bool", D3 % "False",
                 "mkdict(('a', pa, va), ('b', pb, None), ('c', pc, vc), ('x', px, 0), ('y', py, 0))"))
    L.append(ent("dict.3keys.relaxed", "a: int, pa: bool, pb: bool, pc: bool, px: bool, va: int, vc: bool", D3 % '"mid"',
                 "mkdict(('a', pa, va), ('b', pb, None), ('c', pc, vc), ('x', px, 0))"))
    L.append(ent("dict.untyped", "pa: bool, " + W, '("dict", None)', "mkdict(('a', pa, w))",
                pre=["not isinstance(w, (str, bytes)) or len(w) <= 2"], covers=("accept",)))
    L.append(ent("dict.empty", "pa: bool", '("dict", [], False)', "mkdict(('a', pa, 0))"))
    L.append(ent("dict.onlyrelaxed", "pa: bool", '("dict", [], True)', "mkdict(('a', pa, 0))", covers=("accept",)))
    L.append(ent("dict.wild.member", "a: int, k: int, pb: bool, " + W, D % "False", "mkdict(('a', True, w), ('b', pb, 'zz'))",
                pre=["not isinstance(w, (str, bytes)) or len(w) <= 2"]))
    L.append(ent("dict.wild", "a: int, k: int, " + W, D % "False", "w",
                pre=["not isinstance(w, (str, bytes)) or len(w) <= 2"], covers=("reject",)))
    L.append(ent("dict.intkeys", "a: int, p0: bool, p1: bool, v0: int, v1: int",
                '("dict", [(0, False, %s), (1, True, %s)], False)' % (INT_A, INT_A), "mkdict((0, p0, v0), (1, p1, v1))"))
    # ---- nesting
    NEST = '("dict", [("r", False, ("list_t", ("dict", [("id", False, %s), ("t", True, ("str", Nil, (Nil, Nil, k), Nil, Nil, Nil))], False), (Nil, p, Nil)))], True)' % INT_A
    L.append(ent("nest.dict.list.dict", "a: int, k: int, p: int, n: int, i0: int, i1: int, pt: bool, t: str, px: bool",
                NEST, "{'r': mklist(n, mkdict(('id', True, i0), ('t', pt, t)), mkdict(('id', True, i1), ('x', px, 0)))}",
                pre=["0 <= n <= 2", "len(t) <= 2"], timeout=120))
    L.append(ent("nest.dict.str", "al: str, k: int, ps: bool, v: str",
                 '("dict", [("s", True, ("str", Nil, (Nil, Nil, k), al, Nil, Nil)), ("z", True, ("none",))], False)',
                 "mkdict(('s', ps, v))", pre=["len(al) <= 2", "len(v) <= 2"], timeout=90))
    L.append(ent("nest.list.str", "al: str, n: int, t: str, u: str", '("list_t", ("str", Nil, NOLEN, al, Nil, Nil), NOLEN)',
                 "mklist(n, t, u)", pre=["len(al) <= 2", "len(t) <= 1", "len(u) <= 1", "0 <= n <= 2"], timeout=90))
    L.append(ent("nest.list.list", "a: int, n: int, m: int, v0: int, v1: int, v2: int",
                '("list_e", [E, ("list_e", [%s, E], NOLEN)], NOLEN)' % INT_A,
                "mklist(n, [v2], mklist(m, v0, v1))", pre=["0 <= n <= 2", "0 <= m <= 2"]))
    # ---- any / alias
    ANY = '("any", [%s, ("str", Nil, (k, Nil, Nil), Nil, Nil, Nil), ("none",)])' % INT_A
    L.append(ent("any.3", "a: int, k: int, " + W, ANY, "w", pre=["not isinstance(w, (str, bytes)) or len(w) <= 2"]))
    L.append(ent("any.dup", "a: int, " + W, '("any", [%s, %s, ("none",)])' % (INT_A, INT_A), "w",
                 pre=["not isinstance(w, (str, bytes)) or len(w) <= 2"]))
    L.append(ent("any.pinned", "x: int, b: bool, " + W, '("any", [("int", x, Nil, Nil), ("bool", b), ("none",)])', "w",
                 pre=["not isinstance(w, (str, bytes)) or len(w) <= 2"]))
    L.append(ent("any.empty", W, '("any", None)', "w", pre=["not isinstance(w, (str, bytes)) or len(w) <= 2"], covers=("accept",)))
    L.append(ent("any.nested", "a: int, b: int, v: int", '("any", [%s, ("any", [%s, ("none",)])])' % (INT_A, INT_B), "v", covers=("accept",)))
    L.append(ent("any.in.list", "a: int, b: int, n: int, v0: int, v1: int",
                '("list_t", ("any", [("int", Nil, a, Nil), ("int", Nil, Nil, b)]), NOLEN)', "mklist(n, v0, v1)", pre=["0 <= n <= 2"]))
    ANYL = '("any", [("list_t", %s, NOLEN), ("list_t", ("str", Nil, (Nil, Nil, k), Nil, Nil, Nil), NOLEN)])' % INT_A
    L.append(ent("any.of.lists", "a: int, k: int, n: int, v1: int, " + W, ANYL, "mklist(n, w, v1)",
                 pre=["0 <= n <= 2", "not isinstance(w, (str, bytes)) or len(w) <= 2"]))
    L.append(ent("any.of.lists.in.dict", "a: int, k: int, n: int, " + W, '("dict", [("r", False, ("dict", [("t", False, %s)], False))], False)' % ANYL,
                 "{'r': {'t': mklist(n, w)}}", pre=["0 <= n <= 1", "not isinstance(w, (str, bytes)) or len(w) <= 2"]))
    L.append(ent("alias", "a: int, b: int, " + W, '("alias", "T", ("int", Nil, a, b))', "w",
                pre=["not isinstance(w, (str, bytes)) or len(w) <= 2"]))
    L.append(ent("alias.in.dict", "a: int, pa: bool, va: int",
                '("dict", [("a", True, ("alias", "T", %s))], False)' % INT_A, "mkdict(('a', pa, va))"))
    return L + thorough_entries()




# ------------------------------------------------------------------ thorough tier: generated compositions (depth 2 and 3)

class _Leaf:
    def __init__(self, kind):
        self.kind = kind

    def spec(self):
        return {"int": ('("int", Nil, la, Nil)', ["la: int"], []),
                "intmax": ('("int", Nil, Nil, lb)', ["lb: int"], []),
                "str": ('("str", Nil, (Nil, Nil, lk), Nil, Nil, Nil)', ["lk: int"], []),
                "alpha": ('("str", Nil, NOLEN, lal, Nil, Nil)', ["lal: str"], ["len(lal) <= 2"]),
                "bool": ('("bool", Nil)', [], []),
                "none": ('("none",)', [], []),
                "float": ('("float", Nil, lmn, Nil, Nil)', ["lmn: float"], ["lmn == lmn"]),
                "bytes": ('("bytes", Nil)', [], []),
                "intval": ('("int", lx, Nil, Nil)', ["lx: int"], [])}[self.kind]

    def value(self, s):
        """(expr, params, pre) of a value with fresh symbolic leaves named by suffix s"""
        if self.kind in ("int", "intmax", "intval"):
            return "v%s" % s, ["v%s: int" % s], []
        if self.kind in ("str", "alpha"):
            return "v%s" % s, ["v%s: str" % s], ["len(v%s) <= 2" % s]
        if self.kind == "bool":
            return "v%s" % s, ["v%s: Union[None, bool, int]" % s], []
        if self.kind == "none":
            return "(None if v%s else 0)" % s, ["v%s: bool" % s], []
        if self.kind == "float":
            return "v%s" % s, ["v%s: float" % s], ["v%s == v%s" % (s, s)]
        return "v%s" % s, ["v%s: bytes" % s], ["len(v%s) <= 2" % s]


class _Cont:
    def __init__(self, form, inner, tag):
        self.form, self.inner, self.tag = form, inner, tag

    def spec(self):
        sp, params, pre = self.inner.spec()
        f = self.form
        if f == "typed":
            return '("list_t", %s, NOLEN)' % sp, params, pre
        if f == "head":
            return '("list_e", [%s, E], NOLEN)' % sp, params, pre
        if f == "tail":
            return '("list_e", [E, %s], NOLEN)' % sp, params, pre
        if f == "body":
            return '("list_e", [E, %s, E], NOLEN)' % sp, params, pre
        if f == "dreq":
            return '("dict", [("k", False, %s), ("o", True, ("none",))], False)' % sp, params, pre
        if f == "dopt":
            return '("dict", [("k", True, %s)], "first")' % sp, params, pre
        return '("any", [%s, ("none",)])' % sp, params, pre

    def value(self, s):
        t = self.tag + s
        e1, p1, q1 = self.inner.value(t + "a")
        f = self.form
        if f in ("typed", "head", "tail", "body"):
            e2, p2, q2 = self.inner.value(t + "b")
            n = "n" + t
            if f == "typed":
                expr = "mklist(%s, %s, %s)" % (n, e1, e2)
            elif f == "head":
                expr = "mklist(%s, %s, x%s)" % (n, e1, t)
            elif f == "tail":
                expr = "mklist(%s, x%s, %s)[2 - %s:] if %s <= 2 else [x%s, %s]" % ("2", t, e1, n, n, t, e1)
                expr = "(mklist(%s, %s) if %s < 2 else [x%s, %s])" % (n, e1, n, t, e1)
            else:
                expr = "(mklist(%s, %s) if %s < 2 else [x%s, %s, %s])" % (n, e1, n, t, e1, e2)
            extra = ["%s: int" % n, "x%s: int" % t]
            params = p1 + (p2 if f in ("typed", "body") else []) + extra
            pre = q1 + (q2 if f in ("typed", "body") else []) + ["0 <= %s <= 2" % n]
            return expr, params, pre
        if f in ("dreq", "dopt"):
            return "mkdict(('k', p%s, %s), ('z', z%s, 0))" % (t, e1, t), p1 + ["p%s: bool" % t, "z%s: bool" % t], q1
        return "(%s if p%s else None)" % (e1, t), p1 + ["p%s: bool" % t], q1


def thorough_entries():
    out = []
    leaves = ["int", "intmax", "str", "alpha", "bool", "none", "float", "bytes", "intval"]
    forms = ["typed", "head", "tail", "body", "dreq", "dopt", "any"]
    for f in forms:
        for lf in leaves:
            node = _Cont(f, _Leaf(lf), "c")
            sp, sparams, spre = node.spec()
            ve, vparams, vpre = node.value("")
            out.append(ent("gen2.%s.%s" % (f, lf), ", ".join(sparams + vparams), sp, ve, pre=spre + vpre, timeout=120, tier="thorough", covers=("accept",)))
    for f1 in forms:
        for f2 in forms:
            node = _Cont(f1, _Cont(f2, _Leaf("int"), "d"), "c")
            sp, sparams, spre = node.spec()
            ve, vparams, vpre = node.value("")
            out.append(ent("gen3.%s.%s.int" % (f1, f2), ", ".join(sparams + vparams), sp, ve, pre=spre + vpre, timeout=200, tier="thorough", covers=("accept",)))
    return out
