"""C12 - substitution fails only with SubstitutionError, its result is usable, and it is idempotent."""
from harness.subst import harnesses_for

ASSUMPTIONS = [
    "skeletons of harness/subst.py; value leaves symbolic; unconvertible members from ZOO_UNCONVERTIBLE",
    "'usable' = fake(R) under the TapeRandom stub (4 int draws, 2 char draws, small default caps) returns "
    "without raising a value that R accepts",
    "any exception other than SubstitutionError escaping substitute() is a counterexample",
    "values with ... placeholders (in lists, as dict values, as the ...: ... entry, bare) are included for the 'only "
    "SubstitutionError / usable result' clauses; idempotence is claimed for plain values only, as the property says",
]

POST = """
with gen_env((d0, d1, d2, d3), {chars}, (), small=True) as t:
    g = fake(R)
if not ok_validate(R, g):
    return False, "generated value rejected by result"
if PLAIN:      # idempotence is stated for plain values (no ... placeholders)
    R2 = substitute(R, v)
    if not (R2 == R):
        return False, "not idempotent"
return True, "subst"
"""

harnesses = harnesses_for("C12", POST)


def extra_checks(tier, seed, replay_dir, active_kf=()):
    """E2: exact IEEE-754 execution of the float branch (engine/fpsym.py) - see harness/fp_extra.py"""
    from harness import fp_extra
    return fp_extra.run("C12", tier, replay_dir, active_kf)
