"""C09 - regex generation yields a full match or refuses loudly.

Patterns are concrete (sre parsing is a C boundary) and enumerated from the supported grammar; every random
outcome (branch choice, repeat count, range ordinal, class member) is a solver variable via the tape stub.
"""
from engine.hgen import mk

ASSUMPTIONS = [
    "pattern catalogue generated from the supported grammar (quick: 52 patterns to depth 2; thorough: + products to depth 3); "
    "patterns stay concrete: the *program* quantifier is bounded by enumeration, the *schedule* quantifier (all RNG outcomes) "
    "is decided by the solver",
    "max_repeat = 2 for open-ended repeats (keeps loops short); `a{5,}` style minimum-above-cap patterns included; "
    "bounded repeats a{m,n} with n around the sre opcode numbers (44, 45 on 3.12) are generated with max_repeat = 60",
    "tape: 8 int draws, 6 char draws; random.choice over a str alphabet returns a symbolic 1-char string assumed to be in "
    "the alphabet; over other sequences any index",
    "re.fullmatch / re.search on the symbolic result are CrossHair's regex model; counterexamples are replayed with the real re",
    "anchors only at the pattern ends; \\b, mid-pattern anchors and inline flags are outside the property's lists",
]
BOUNDS = "catalogue of concrete patterns (depth <= 2 quick / <= 3 thorough); all RNG outcomes symbolic; max_repeat 2"
FUNCS = ("generation/_regex_generator.py:RegexGenerator.*", "generation/_random.py:Random.random_int/random_choice",
         "generation/_generator.py:Generator.visit_str (pattern branch)", "validation/_validator.py:visit_str (pattern)")
TAPE = "d0: int, d1: int, d2: int, d3: int, d4: int, d5: int, d6: int, d7: int, c0: str, c1: str, c2: str, c3: str, c4: str, c5: str"
TPRE = ["len(c0) == 1 and len(c1) == 1 and len(c2) == 1 and len(c3) == 1 and len(c4) == 1 and len(c5) == 1"]

GEN = """
import re as _re
from d42.generation import Random as _Random, RegexGenerator as _RegexGenerator, Generator as _Generator
P = {pat!r}
with gen_env((d0, d1, d2, d3, d4, d5, d6, d7), (c0, c1, c2, c3, c4, c5), (), small=False) as t:
    rnd = _Random()
    s = _RegexGenerator(rnd, max_repeat=2).generate(P)
if not isinstance(s, str):
    return False, "not a string"
if _re.fullmatch(P, s) is None:
    return False, "generated string does not match the entire pattern"
if not ok_validate(schema.str.regex(P), s):
    return False, "schema.str.regex(p) rejects what it generates"
return True, ("drew" if t.draws > 0 else "nodraw")
"""

FAKE = """
P = {pat!r}
S = schema.str.regex(P)
with gen_env((d0, d1, d2, d3, d4, d5, d6, d7), (c0, c1, c2, c3, c4, c5), (), small=False) as t:
    s = fake(S)
return ok_validate(S, s), ("drew" if t.draws > 0 else "nodraw")
"""

SEQ = """
import re as _re
from d42.generation import Random as _Random, RegexGenerator as _RegexGenerator
PATS = {pats!r}
with gen_env((d0, d1, d2, d3, d4, d5, d6, d7), (c0, c1, c2, c3, c4, c5), (), small=False) as t:
    g = _RegexGenerator(_Random(), max_repeat=2)       # ONE generator for the whole sequence (as d42.fake uses one)
    outs = [g.generate(P) for P in PATS]
for P, s in zip(PATS, outs):
    if not isinstance(s, str) or _re.fullmatch(P, s) is None:
        return False, "a later pattern on the same generator yields a non-match"
return True, "drew"
"""

UNSUP = """
from d42.generation import Random as _Random, RegexGenerator as _RegexGenerator
import re as _re
P = {pat!r}
with gen_env((d0, d1, d2, d3, d4, d5, d6, d7), (c0, c1, c2, c3, c4, c5), (), small=False) as t:
    try:
        s = _RegexGenerator(_Random(), max_repeat=2).generate(P)
    except Exception:
        return True, "refused"
return (_re.fullmatch(P, s) is not None), "returned"
"""

SUPPORTED = [
    "abc", r"a\.b\\", r"\d", r"\w", ".", "a.c", "[abc]", "[a-c]", "[^a-c]", r"[\d_]", r"[^\d]", r"[^#\d]", r"[^-.\w]", r"[^\w#]",
    "[a-cx-z0]", "[^a]", "(ab)", "(?:ab|c)", "(?P<n>a)b", "a|b|cd", "a*", "a+", "a?", "a{2}", "a{2,}", "a{1,3}", "a{5,}",
    "a*?", "a+?", "a??", "a{1,2}?", "^ab$", "^a*$", "^.$", "(ab|c)+", "[a-c]{1,3}x?", r"^a*?[\d_]{2}$", "(a|b)(c|d)", "((a))",
    r"\d{2}-\w", "(?:a|[bc])d", "x(?:ab)*y", "[.]", r"[\]a]", r"\-\+", "a|", "(a|bc)?d", r"[0-9a-f]{2}", ".{2}", r"[^\d\w]", "[a-a]", r"\w\W"[:2], "[\u0100-\uf8ff]", "[\ud7f0-\ue00f]x", "[\u0400-\u04ff]{2}",
]
# constructs after which the SAME character can follow: a generator that silently treats them as supported yields non-matches
UNSUPPORTED_EXTRA = ["a*+a", "a++[ab]", "a?+a", "[0-9]++[0-9a-f]", "x*+[a-x]"]
UNSUPPORTED_ATOMS = [r"\s", r"\S", r"\D", r"\W", "(?=a)", "(?!a)", "(?<=a)", "(?<!a)", r"(b)\1", "(?>a)", "a*+", r"[\s]", r"[^\S]", r"[\D]"]
COVER = {"abc": ("nodraw",), r"a\.b\\": ("nodraw",), "(ab)": ("nodraw",), "(?P<n>a)b": ("nodraw",), "^ab$": ("nodraw",), "((a))": ("nodraw",),
         r"\-\+": ("nodraw",), "[.]": ("nodraw",)}


def harnesses(tier, seed, active_kf=()):
    out = []
    pats = list(dict.fromkeys(SUPPORTED))
    if tier == "thorough":
        atoms = ["a", r"\d", "[a-c]", "[^a-c]", ".", "(?:ab|c)", r"[^#\d]"]
        quants = ["", "*", "+", "?", "{1,2}", "{2,}", "*?", "+?"]
        for a in atoms:
            for q in quants:
                for b in ("", "x", r"\w?"):
                    pats.append("%s%s%s" % (a, q, b))
                    pats.append("^(?:%s%s|%sy)$" % (a, q, b or "z"))
        pats = list(dict.fromkeys(pats))
    k = 3.0 if tier == "thorough" else 1.0
    for i, p in enumerate(pats):
        covers = COVER.get(p, ("drew",) if p in SUPPORTED else ())
        out.append(mk("C09.gen.%03d" % i, TAPE, GEN.format(pat=p), covers=covers, pre=TPRE, timeout=90 * k, functions=FUNCS,
                      bounds=BOUNDS, meta={"pattern": p}, cover_timeout=60))
    for i, p in enumerate(["a.c", r"[^#\d]x", "(ab|c)+", "^a*$", r"\d{2}-\w"]):
        out.append(mk("C09.fake.%03d" % i, TAPE, FAKE.format(pat=p), covers=("drew",), pre=TPRE, timeout=90 * k, functions=FUNCS,
                      bounds=BOUNDS, meta={"pattern": p}, cover_timeout=60))
    # bounded repeats whose upper count collides with small integer constants of the sre module (opcode numbers),
    # generated with a max_repeat ABOVE the bound: the bound must win
    import re._constants as _c
    k = int(_c.MAX_REPEAT)
    for i, p in enumerate(["a{1,%d}" % k, "a{0,%d}b" % (k - 1), "(?:ab){2,%d}" % (k + 1), "a{1,%d}" % int(_c.MIN_REPEAT), "[ab]{0,%d}?c" % k]):
        out.append(mk("C09.bounded.%03d" % i, TAPE, GEN.format(pat=p).replace("max_repeat=2", "max_repeat=60"), covers=("drew",),
                      pre=TPRE, timeout=120 * k_t if False else 120, functions=FUNCS, bounds=BOUNDS, meta={"pattern": p}, cover_timeout=60))
    # several different patterns on ONE generator instance: state kept between generate() calls must not leak
    for i, ps in enumerate([("[^ab]", "[^hi]", "[^xy]", "[^01]", "[^hi]", "[^ab]"), ("[^a-c]", "[a-c]", "[^d-f]", r"[^\d]", "[^a-c]"),
                            ("a|b", "[^q]", "(?:c|d)", "[^r]", "[^q]")]):
        out.append(mk("C09.sequence.%03d" % i, TAPE, SEQ.format(pats=ps), covers=("drew",), pre=TPRE, timeout=120, functions=FUNCS,
                      bounds=BOUNDS, meta={"pattern": " ; ".join(ps)}, cover_timeout=60))
    n = 0
    for a in UNSUPPORTED_ATOMS:
        for tmpl in ("%sb", "c%sb", "cb%s", "(?:x|%s)b", "(c%s)+"):
            if tier != "thorough" and tmpl not in ("%sb", "c%sb", "cb%s"):
                continue
            p = tmpl % a
            import re
            try:
                re.compile(p)
            except re.error:
                continue
            out.append(mk("C09.unsupported.%03d" % n, TAPE, UNSUP.format(pat=p), covers=("refused",), pre=TPRE, timeout=60 * k,
                          functions=FUNCS, bounds=BOUNDS, meta={"pattern": p}))
            n += 1
    for p in UNSUPPORTED_EXTRA:
        out.append(mk("C09.unsupported.%03d" % n, TAPE, UNSUP.format(pat=p), covers=("refused",), pre=TPRE, timeout=60 * k,
                      functions=FUNCS, bounds=BOUNDS, meta={"pattern": p}))
        n += 1
    return out


def extra_evidence():
    return {"patterns_supported": SUPPORTED, "unsupported_atoms": UNSUPPORTED_ATOMS}
