"""Harness text generation.

A harness is a small Python module.  `h(<symbolic scalars>)` runs the real d42 code and returns
`(ok, tag)`: `ok` is the property's post-condition on this execution, `tag` names the behaviour
class the execution fell into (used by the reachability twins).  From it we derive

  main(...)            post: _            -> h(...)[0]           (must be CONFIRMED)
  cover_<goal>(...)    post: _            -> h(...)[1] != goal   (must be REFUTED, witness replays)

Anything that escapes `h` as an exception is a counterexample of `main`.
"""
import ast
import textwrap
from dataclasses import dataclass, field
from typing import Dict, List, Optional, Tuple

PRELUDE = "from hlib import *\n"


@dataclass
class HarnessSpec:
    name: str
    source: str
    fns: List[str]
    covers: List[str]
    timeout: float = 60.0
    opaque: bool = True
    bounds: str = ""
    functions: Tuple[str, ...] = ()
    kf_applied: Tuple[str, ...] = ()
    cover_timeout: float = 30.0
    meta: Dict[str, object] = field(default_factory=dict)


def arg_names(params: str) -> List[str]:
    fn = ast.parse("def f(%s): pass" % params).body[0]
    return [a.arg for a in fn.args.args]


def mk(name: str, params: str, body: str, covers=(), pre=(), timeout: float = 60.0,
       opaque: bool = True, bounds: str = "", functions=(), kf: Optional[Dict[str, str]] = None,
       active_kf=(), prelude: str = "", cover_timeout: float = 30.0, meta=None, kf_applied=None) -> HarnessSpec:
    """kf: {finding id: extra precondition (python expr over the params)}; it is applied only
    when the finding is in active_kf (i.e. its witness still fails on the current tree)."""
    names = arg_names(params)
    call = ", ".join(names)
    pres = list(pre)
    applied = []
    for fid, cond in (kf or {}).items():
        if fid in active_kf:
            pres.append(cond)
            applied.append(fid)
    doc = "".join("    pre: %s\n" % p for p in pres)
    src = PRELUDE + prelude + "\n\n"
    src += "def h(%s):\n%s\n\n" % (params, textwrap.indent(textwrap.dedent(body).strip("\n"), "    "))
    src += ("def main(%s) -> bool:\n    \"\"\"\n%s    post: _\n    \"\"\"\n"
            "    return h(%s)[0]\n\n" % (params, doc, call))
    for c in covers:
        src += ("def cover_%s(%s) -> bool:\n    \"\"\"\n%s    post: _\n    \"\"\"\n"
                "    try:\n        return h(%s)[1] != %r\n    except Exception:\n        return True\n\n"
                % (c, params, doc, call, c))
    # the precondition, evaluated concretely by the replayer
    src += "def pre_ok(%s):\n    return %s\n" % (params, " and ".join("(%s)" % p for p in pres) or "True")
    return HarnessSpec(name=name, source=src, fns=["main"] + ["cover_" + c for c in covers],
                       covers=list(covers), timeout=timeout, opaque=opaque, bounds=bounds,
                       functions=tuple(functions), kf_applied=tuple(applied),
                       cover_timeout=cover_timeout, meta=dict(meta or {}))
