"""E2 - fpsym: exact IEEE-754 symbolic execution of float kernels by operator overloading.

Runs the REAL function object (here d42.generation._random.Random.random_float) on operands that carry z3
FloatingPoint terms.  Every `bool()` of a comparison consults a decision stack, so the function is re-executed
once per path (depth first).  Each completed path yields  assumptions AND path-condition AND NOT property  as a
pure QF_FP query, solved by z3 (fast on sat) and - on exported SMT-LIB - by cvc5 (better on unsat).

Integers are carried as integral FP values; that is exact while |v| < 2**(sb-1), which the harness asserts.
"""
import math
import os
import subprocess
import sys
import tempfile
import time

import z3

RNE = z3.RNE()


class UnwindingFailure(Exception):
    pass


class Engine:
    def __init__(self, eb, sb, max_decisions=64):
        self.F = z3.FPSort(eb, sb)
        self.eb, self.sb = eb, sb
        self.decisions = []
        self.pos = 0
        self.pc = []
        self.max_decisions = max_decisions

    def fork(self, cond):
        if self.pos < len(self.decisions):
            d = self.decisions[self.pos]
        else:
            if len(self.decisions) >= self.max_decisions:
                raise UnwindingFailure("more than %d decisions on one path" % self.max_decisions)
            d = True
            self.decisions.append(d)
        self.pos += 1
        self.pc.append(cond if d else z3.Not(cond))
        return d

    def next_path(self):
        while self.decisions and self.decisions[-1] is False:
            self.decisions.pop()
        if not self.decisions:
            return False
        self.decisions[-1] = False
        return True

    def reset(self):
        self.pos = 0
        self.pc = []


E = None


class SymBool:
    def __init__(self, t):
        self.t = t

    def __bool__(self):
        return E.fork(self.t)


def term(x):
    if isinstance(x, (SymFP, SymInt)):
        return x.t
    if isinstance(x, bool):
        raise TypeError("bool operand")
    if isinstance(x, (int, float)):
        v = z3.FPVal(float(x), E.F)
        return v
    raise TypeError(type(x))


def _cmp(op):
    def f(s, o):
        return SymBool(op(s.t, term(o)))
    return f


class SymFP:
    """a Python float"""

    def __init__(self, t):
        self.t = t

    def __mul__(s, o):
        return SymFP(z3.fpMul(RNE, s.t, term(o)))

    __rmul__ = __mul__

    def __truediv__(s, o):
        return SymFP(z3.fpDiv(RNE, s.t, term(o)))

    def __add__(s, o):
        return SymFP(z3.fpAdd(RNE, s.t, term(o)))

    def __sub__(s, o):
        return SymFP(z3.fpSub(RNE, s.t, term(o)))

    __lt__ = _cmp(z3.fpLT)
    __le__ = _cmp(z3.fpLEQ)
    __gt__ = _cmp(z3.fpGT)
    __ge__ = _cmp(z3.fpGEQ)

    def __eq__(s, o):
        return SymBool(z3.fpEQ(s.t, term(o)))

    def __ne__(s, o):
        return SymBool(z3.Not(z3.fpEQ(s.t, term(o))))

    __hash__ = None

    def __int__(s):
        return SymInt(z3.fpRoundToIntegral(z3.RTZ(), s.t))

    __trunc__ = __int__

    def __ceil__(s):
        return SymInt(z3.fpRoundToIntegral(z3.RTP(), s.t))

    def __floor__(s):
        return SymInt(z3.fpRoundToIntegral(z3.RTN(), s.t))

    def __round__(s, nd=None):
        if nd is None:
            return SymInt(z3.fpRoundToIntegral(z3.RNE(), s.t))
        E.round_lemma_uses += 1
        return s    # lemma: round(k / 10**p, p) == k / 10**p  (validated by the differential pass)


class SymInt(int):
    """a Python int carried as an integral FP term"""

    def __new__(cls, t):
        o = int.__new__(cls, 0)
        o.t = t
        return o

    def __truediv__(s, o):
        return SymFP(z3.fpDiv(RNE, s.t, term(o)))

    def __add__(s, o):
        return SymInt(z3.fpAdd(RNE, s.t, term(o)))

    def __sub__(s, o):
        return SymInt(z3.fpSub(RNE, s.t, term(o)))

    __lt__ = _cmp(z3.fpLT)
    __le__ = _cmp(z3.fpLEQ)
    __gt__ = _cmp(z3.fpGT)
    __ge__ = _cmp(z3.fpGEQ)

    def __eq__(s, o):
        return SymBool(z3.fpEQ(s.t, term(o)))

    __hash__ = None


class StubRandom:
    """stand-in for the stdlib `random` module inside d42.generation._random"""

    def __init__(self):
        self.n = 0
        self.facts = []
        self.draws = []

    def randint(self, a, b):
        if a > b:
            raise ValueError("empty range for randrange()")
        r = z3.FP("r%d" % self.n, E.F)
        self.n += 1
        self.facts += [z3.fpRoundToIntegral(z3.RTZ(), r) == r, z3.fpLEQ(term(a), r), z3.fpLEQ(r, term(b)),
                       z3.Not(z3.fpIsNaN(r)), z3.Not(z3.fpIsInf(r))]
        self.draws.append(("randint", r))
        return SymInt(r)

    def uniform(self, a, b):
        u = z3.FP("u%d" % self.n, E.F)
        self.n += 1
        lo = z3.If(z3.fpLEQ(term(a), term(b)), term(a), term(b))
        hi = z3.If(z3.fpLEQ(term(a), term(b)), term(b), term(a))
        self.facts += [z3.fpLEQ(lo, u), z3.fpLEQ(u, hi)]
        self.draws.append(("uniform", u))
        return SymFP(u)


def fp_to_py(v, eb, sb):
    """z3 FP numeral -> Python float (exact for widths <= double)"""
    if v is None:
        return None
    if z3.is_fprm_value(v):
        return None
    if v.isNaN():
        return float("nan")
    if v.isInf():
        return float("-inf") if v.isNegative() else float("inf")
    s = -1.0 if v.isNegative() else 1.0
    if v.isZero():
        return s * 0.0
    sig = v.significand_as_long()
    exp = v.exponent_as_long(biased=False)
    if v.isSubnormal():
        return s * math.ldexp(sig, -(2 ** (eb - 1) - 2) - (sb - 1))
    return s * math.ldexp((1 << (sb - 1)) + sig, exp - (sb - 1))


def solve_cvc5(smt2, timeout):
    """second opinion on an exported query with the cvc5 binary; returns 'sat' / 'unsat' / 'unknown'"""
    with tempfile.NamedTemporaryFile("w", suffix=".smt2", delete=False) as f:
        f.write(smt2)
        path = f.name
    try:
        cp = subprocess.run(["cvc5", "--lang=smt2", "--tlimit=%d" % int(timeout * 1000), path], capture_output=True, text=True,
                            timeout=timeout + 10)
        out = cp.stdout.strip().splitlines()
        if any("(error" in ln for ln in out):
            return "unknown"
        return out[0] if out and out[0] in ("sat", "unsat") else "unknown"
    except subprocess.TimeoutExpired:
        return "unknown"
    finally:
        os.unlink(path)


def explore_random_float(precision, eb, sb, z3_timeout=60, cvc5_timeout=0, bound_bits=None):
    """Symbolically execute the real Random.random_float(start, end, precision).

    Assumes: start, end finite, start <= end, |start|, |end| <= B with B * 10**precision < 2**(sb-2) (so that scaled
    values and grid integers are exact integers in the format).  Property per path: no exception, and
    start <= result <= end.  Returns a list of path records."""
    global E
    import d42.generation  # noqa: F401
    mod = sys.modules["d42.generation._random"]
    from d42.generation import Random
    real_random, had_int, had_round = mod.random, mod.__dict__.get("int"), mod.__dict__.get("round")
    E = Engine(eb, sb)
    E.round_lemma_uses = 0
    scale = 10 ** precision
    if float(scale) != scale or math.frexp(float(scale))[0] * (1 << sb) % 1 != 0:
        pass
    B = float((1 << (sb - 2)) // scale)
    if B < 1:
        raise ValueError("format too narrow for this precision")
    records = []
    try:
        mod.int = lambda x: x.__int__() if isinstance(x, SymFP) else int(x)
        while True:
            E.reset()
            stub = StubRandom()
            mod.random = stub
            start, end = z3.FP("start", E.F), z3.FP("end", E.F)
            assume = [z3.fpLEQ(z3.FPVal(-B, E.F), start), z3.fpLEQ(end, z3.FPVal(B, E.F)), z3.fpLEQ(start, end)]
            outcome, bad = None, None
            try:
                res = Random().random_float(SymFP(start), SymFP(end), precision)
                if not isinstance(res, (SymFP, SymInt)):
                    outcome, bad = "returned a non-float (%s)" % type(res).__name__, z3.BoolVal(True)
                else:
                    outcome = "return"
                    bad = z3.Or(z3.fpLT(res.t, start), z3.fpGT(res.t, end), z3.fpIsNaN(res.t))
            except UnwindingFailure:
                raise
            except Exception as ex:    # raising although start <= end: the schema is satisfiable, so this violates C01
                outcome, bad = "raise %s" % type(ex).__name__, z3.BoolVal(True)
            s = z3.SolverFor("QF_FP")
            s.set("timeout", int(z3_timeout * 1000))
            s.add(*assume, *E.pc, *stub.facts, bad)
            t0 = time.time()
            verdict = str(s.check())
            dt = time.time() - t0
            model = None
            if verdict == "sat":
                m = s.model()
                model = {str(d): fp_to_py(m[d], eb, sb) for d in m.decls()}
            engine_used = "z3"
            if verdict == "unknown" and cvc5_timeout:
                t0 = time.time()
                verdict2 = solve_cvc5("(set-logic QF_FP)\n" + s.to_smt2().replace("(set-info :status unknown)", ""), cvc5_timeout)
                dt += time.time() - t0
                if verdict2 == "unsat":
                    verdict, engine_used = "unsat", "cvc5"
                elif verdict2 == "sat":
                    verdict, engine_used = "sat-by-cvc5-no-model", "cvc5"
            records.append({"decisions": list(E.decisions[:E.pos]), "outcome": outcome, "verdict": verdict, "solver": engine_used,
                            "solver_s": round(dt, 2), "model": model, "draws": [k for k, _ in stub.draws],
                            "round_lemma_uses": E.round_lemma_uses})
            if not E.next_path():
                break
    finally:
        mod.random = real_random
        for name, had in (("int", had_int), ("round", had_round)):
            if had is None:
                mod.__dict__.pop(name, None)
            else:
                mod.__dict__[name] = had
    return records


def replay_random_float(model, precision):
    """Run the real function concretely with the model's inputs and draws. Returns (ok, detail)."""
    import random as real_random_module
    import d42.generation  # noqa: F401
    mod = sys.modules["d42.generation._random"]
    from d42.generation import Random
    start, end = model.get("start"), model.get("end")
    draws = [model[k] for k in sorted(model) if k.startswith("r") or k.startswith("u")]

    class Fixed:
        def __init__(self):
            self.i = 0

        def randint(self, a, b):
            if a > b:
                raise ValueError("empty range")
            v = draws[self.i] if self.i < len(draws) else a
            self.i += 1
            v = int(v)
            return min(max(v, a), b)

        def uniform(self, a, b):
            v = draws[self.i] if self.i < len(draws) else a
            self.i += 1
            return v

    saved = mod.random
    mod.random = Fixed()
    try:
        try:
            res = Random().random_float(start, end, precision)
        except Exception as ex:
            return False, "random_float(%r, %r, %d) raised %s: %s" % (start, end, precision, type(ex).__name__, ex)
    finally:
        mod.random = saved
    ok = start <= res <= end
    return ok, "random_float(%r, %r, %d) with draws %r returned %r" % (start, end, precision, draws, res)


def lemma_check(precision, n=2000, seed=0):
    """differential validation of the rounding lemma on concrete values: round(k / 10**p, p) == k / 10**p"""
    import random as rnd
    r = rnd.Random(seed)
    scale = 10 ** precision
    bad = []
    for _ in range(n):
        k = r.randint(-(2 ** 53) // scale // 4, (2 ** 53) // scale // 4) if r.random() < 0.5 else r.randint(-10 ** 6, 10 ** 6)
        x = k / scale
        if round(x, precision) != x:
            bad.append(k)
    return bad
