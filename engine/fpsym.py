"""E2 - fpsym: exact IEEE-754 symbolic execution of float kernels by operator overloading.

Runs the REAL function object (here d42.generation._random.Random.random_float) on operands that carry z3
FloatingPoint terms.  Every `bool()` of a comparison consults a decision stack, so the function is re-executed
once per path (depth first).  Each completed path yields  assumptions AND path-condition AND NOT property  as a
pure QF_FP query, solved by z3 (fast on sat) and - on exported SMT-LIB - by cvc5 (better on unsat).

Integers are carried as integral FP values; that is exact while |v| < 2**(sb-1), which the harness asserts.
"""
import math
import os
import subprocess
import sys
import tempfile
import time

import z3

RNE = z3.RNE()


class UnwindingFailure(Exception):
    pass


class Engine:
    def __init__(self, eb, sb, max_decisions=64):
        self.F = z3.FPSort(eb, sb)
        self.eb, self.sb = eb, sb
        self.decisions = []
        self.pos = 0
        self.pc = []
        self.known = {}
        self.max_decisions = max_decisions

    def fork(self, cond):
        # the same question asked again on this path gets the same answer (no new decision)
        key = cond.sexpr()
        if key in self.known:
            return self.known[key]
        d = self._fork(cond)
        self.known[key] = d
        return d

    def _fork(self, cond):
        if self.pos < len(self.decisions):
            d = self.decisions[self.pos]
        else:
            if len(self.decisions) >= self.max_decisions:
                raise UnwindingFailure("more than %d decisions on one path" % self.max_decisions)
            d = True
            self.decisions.append(d)
        self.pos += 1
        self.pc.append(cond if d else z3.Not(cond))
        return d

    def next_path(self):
        while self.decisions and self.decisions[-1] is False:
            self.decisions.pop()
        if not self.decisions:
            return False
        self.decisions[-1] = False
        return True

    def reset(self):
        self.pos = 0
        self.pc = []
        self.known = {}


E = None


class SymBool:
    def __init__(self, t):
        self.t = t

    def __bool__(self):
        return E.fork(self.t)


def term(x):
    if isinstance(x, (SymFP, SymInt)):
        return x.t
    if isinstance(x, bool):
        raise TypeError("bool operand")
    if isinstance(x, (int, float)):
        v = z3.FPVal(float(x), E.F)
        return v
    raise TypeError(type(x))


def _cmp(op):
    def f(s, o):
        return SymBool(op(s.t, term(o)))
    return f


def _conv(s, rm, what):
    """float -> int conversions raise for non-finite values, exactly like CPython"""
    if SymBool(z3.fpIsInf(s.t)):
        raise OverflowError("cannot convert float infinity to integer")
    if SymBool(z3.fpIsNaN(s.t)):
        raise ValueError("cannot convert float NaN to integer")
    return SymInt(z3.fpRoundToIntegral(rm, s.t))


class SymFP(float):
    """a Python float (subclass, so that isinstance(x, float) holds in the code under execution)"""

    def __new__(cls, t, grid=None):
        o = float.__new__(cls, 0.0)
        o.t = t
        o.grid = grid          # p when the value is a quotient k / 10**p of an integer k (for the rounding lemma)
        return o

    def __mul__(s, o):
        return SymFP(z3.fpMul(RNE, s.t, term(o)))

    __rmul__ = __mul__

    def __truediv__(s, o):
        return SymFP(z3.fpDiv(RNE, s.t, term(o)))

    def __add__(s, o):
        return SymFP(z3.fpAdd(RNE, s.t, term(o)))

    __radd__ = __add__

    def __sub__(s, o):
        return SymFP(z3.fpSub(RNE, s.t, term(o)))

    def __rsub__(s, o):
        return SymFP(z3.fpSub(RNE, term(o), s.t))

    def __neg__(s):
        return SymFP(z3.fpNeg(s.t))

    def __abs__(s):
        return SymFP(z3.fpAbs(s.t))

    __lt__ = _cmp(z3.fpLT)
    __le__ = _cmp(z3.fpLEQ)
    __gt__ = _cmp(z3.fpGT)
    __ge__ = _cmp(z3.fpGEQ)

    def __eq__(s, o):
        return SymBool(z3.fpEQ(s.t, term(o)))

    def __ne__(s, o):
        return SymBool(z3.Not(z3.fpEQ(s.t, term(o))))

    __hash__ = None

    def __bool__(s):
        return bool(SymBool(z3.Not(z3.fpIsZero(s.t))))

    def __int__(s):
        return _conv(s, z3.RTZ(), "int")

    __trunc__ = __int__

    def __ceil__(s):
        return _conv(s, z3.RTP(), "ceil")

    def __floor__(s):
        return _conv(s, z3.RTN(), "floor")

    def __round__(s, nd=None):
        if nd is None:
            return _conv(s, z3.RNE(), "round")
        if s.grid == nd:
            E.round_lemma_uses += 1
            return s    # lemma: round(k / 10**p, p) == k / 10**p  (validated by the differential pass)
        # round(x, p) for a value that is NOT a grid quotient: modelled as nearest multiple of 10**-p computed in the
        # format (differs from CPython's decimal-exact rounding only at representation boundaries; replay decides)
        E.round_model_uses += 1
        sc = z3.FPVal(float(10 ** nd), E.F)
        return SymFP(z3.fpDiv(RNE, z3.fpRoundToIntegral(z3.RNE(), z3.fpMul(RNE, s.t, sc)), sc))

    def __repr__(s):
        return "<symfp>"


class SymInt(int):
    """a Python int carried as an integral FP term"""

    def __new__(cls, t):
        o = int.__new__(cls, 0)
        o.t = t
        return o

    def __truediv__(s, o):
        g = None
        if isinstance(o, int) and not isinstance(o, SymInt) and o > 0 and str(o).strip("0") == "1":
            g = len(str(o)) - 1
        return SymFP(z3.fpDiv(RNE, s.t, term(o)), grid=g)

    def __add__(s, o):
        return SymInt(z3.fpAdd(RNE, s.t, term(o)))

    def __sub__(s, o):
        return SymInt(z3.fpSub(RNE, s.t, term(o)))

    def __rsub__(s, o):
        return SymInt(z3.fpSub(RNE, term(o), s.t))

    def __mul__(s, o):
        if isinstance(o, float) and not isinstance(o, SymFP):
            return SymFP(z3.fpMul(RNE, s.t, term(o)))
        return SymInt(z3.fpMul(RNE, s.t, term(o)))

    __rmul__ = __mul__

    def __abs__(s):
        return SymInt(z3.fpAbs(s.t))

    __lt__ = _cmp(z3.fpLT)
    __le__ = _cmp(z3.fpLEQ)
    __gt__ = _cmp(z3.fpGT)
    __ge__ = _cmp(z3.fpGEQ)

    def __eq__(s, o):
        return SymBool(z3.fpEQ(s.t, term(o)))

    def __ne__(s, o):
        return SymBool(z3.Not(z3.fpEQ(s.t, term(o))))

    __hash__ = None

    def __repr__(s):
        return "<symint>"


class StubRandom:
    """stand-in for the stdlib `random` module inside d42.generation._random"""

    def __init__(self):
        self.n = 0
        self.facts = []
        self.draws = []

    def randint(self, a, b):
        if a > b:
            raise ValueError("empty range for randrange()")
        r = z3.FP("r%d" % self.n, E.F)
        self.n += 1
        self.facts += [z3.fpRoundToIntegral(z3.RTZ(), r) == r, z3.fpLEQ(term(a), r), z3.fpLEQ(r, term(b)),
                       z3.Not(z3.fpIsNaN(r)), z3.Not(z3.fpIsInf(r))]
        self.draws.append(("randint", r))
        return SymInt(r)

    def uniform(self, a, b):
        u = z3.FP("u%d" % self.n, E.F)
        self.n += 1
        lo = z3.If(z3.fpLEQ(term(a), term(b)), term(a), term(b))
        hi = z3.If(z3.fpLEQ(term(a), term(b)), term(b), term(a))
        self.facts += [z3.fpLEQ(lo, u), z3.fpLEQ(u, hi)]
        self.draws.append(("uniform", u))
        return SymFP(u)


def fp_to_py(v, eb, sb):
    """z3 FP numeral -> Python float (exact for widths <= double)"""
    if v is None:
        return None
    if z3.is_fprm_value(v):
        return None
    if v.isNaN():
        return float("nan")
    if v.isInf():
        return float("-inf") if v.isNegative() else float("inf")
    s = -1.0 if v.isNegative() else 1.0
    if v.isZero():
        return s * 0.0
    sig = v.significand_as_long()
    exp = v.exponent_as_long(biased=False)
    if v.isSubnormal():
        return s * math.ldexp(sig, -(2 ** (eb - 1) - 2) - (sb - 1))
    return s * math.ldexp((1 << (sb - 1)) + sig, exp - (sb - 1))


def solve_cvc5(smt2, timeout):
    """second opinion on an exported query with the cvc5 binary; returns 'sat' / 'unsat' / 'unknown'"""
    with tempfile.NamedTemporaryFile("w", suffix=".smt2", delete=False) as f:
        f.write(smt2)
        path = f.name
    try:
        cp = subprocess.run(["cvc5", "--lang=smt2", "--tlimit=%d" % int(timeout * 1000), path], capture_output=True, text=True,
                            timeout=timeout + 10)
        out = cp.stdout.strip().splitlines()
        if any("(error" in ln for ln in out):
            return "unknown"
        return out[0] if out and out[0] in ("sat", "unsat") else "unknown"
    except subprocess.TimeoutExpired:
        return "unknown"
    finally:
        os.unlink(path)


def explore_random_float(precision, eb, sb, z3_timeout=60, cvc5_timeout=0, bound_bits=None):
    """Symbolically execute the real Random.random_float(start, end, precision).

    Assumes: start, end finite, start <= end, |start|, |end| <= B with B * 10**precision < 2**(sb-2) (so that scaled
    values and grid integers are exact integers in the format).  Property per path: no exception, and
    start <= result <= end.  Returns a list of path records."""
    global E
    import d42.generation  # noqa: F401
    mod = sys.modules["d42.generation._random"]
    from d42.generation import Random
    real_random, had_int, had_round = mod.random, mod.__dict__.get("int"), mod.__dict__.get("round")
    E = Engine(eb, sb)
    E.round_lemma_uses = 0
    E.round_model_uses = 0
    scale = 10 ** precision
    if float(scale) != scale or math.frexp(float(scale))[0] * (1 << sb) % 1 != 0:
        pass
    B = float((1 << (sb - 2)) // scale)
    if B < 1:
        raise ValueError("format too narrow for this precision")
    records = []
    try:
        mod.int = lambda x: x.__int__() if isinstance(x, SymFP) else int(x)
        while True:
            E.reset()
            stub = StubRandom()
            mod.random = stub
            start, end = z3.FP("start", E.F), z3.FP("end", E.F)
            assume = [z3.fpLEQ(z3.FPVal(-B, E.F), start), z3.fpLEQ(end, z3.FPVal(B, E.F)), z3.fpLEQ(start, end)]
            outcome, bad = None, None
            try:
                res = Random().random_float(SymFP(start), SymFP(end), precision)
                if not isinstance(res, (SymFP, SymInt)):
                    outcome, bad = "returned a non-float (%s)" % type(res).__name__, z3.BoolVal(True)
                else:
                    outcome = "return"
                    bad = z3.Or(z3.fpLT(res.t, start), z3.fpGT(res.t, end), z3.fpIsNaN(res.t))
            except UnwindingFailure:
                raise
            except Exception as ex:    # raising although start <= end: the schema is satisfiable, so this violates C01
                outcome, bad = "raise %s" % type(ex).__name__, z3.BoolVal(True)
            s = z3.SolverFor("QF_FP")
            s.set("timeout", int(z3_timeout * 1000))
            s.add(*assume, *E.pc, *stub.facts, bad)
            t0 = time.time()
            verdict = str(s.check())
            dt = time.time() - t0
            model = None
            if verdict == "sat":
                m = s.model()
                model = {str(d): fp_to_py(m[d], eb, sb) for d in m.decls()}
            engine_used = "z3"
            if verdict == "unknown" and cvc5_timeout:
                t0 = time.time()
                verdict2 = solve_cvc5("(set-logic QF_FP)\n" + s.to_smt2().replace("(set-info :status unknown)", ""), cvc5_timeout)
                dt += time.time() - t0
                if verdict2 == "unsat":
                    verdict, engine_used = "unsat", "cvc5"
                elif verdict2 == "sat":
                    verdict, engine_used = "sat-by-cvc5-no-model", "cvc5"
            records.append({"decisions": list(E.decisions[:E.pos]), "outcome": outcome, "verdict": verdict, "solver": engine_used,
                            "solver_s": round(dt, 2), "model": model, "draws": [k for k, _ in stub.draws],
                            "round_lemma_uses": E.round_lemma_uses})
            if not E.next_path():
                break
    finally:
        mod.random = real_random
        for name, had in (("int", had_int), ("round", had_round)):
            if had is None:
                mod.__dict__.pop(name, None)
            else:
                mod.__dict__[name] = had
    return records


def replay_random_float(model, precision):
    """Run the real function concretely with the model's inputs and draws. Returns (ok, detail)."""
    import random as real_random_module
    import d42.generation  # noqa: F401
    mod = sys.modules["d42.generation._random"]
    from d42.generation import Random
    start, end = model.get("start"), model.get("end")
    draws = [model[k] for k in sorted(model) if k.startswith("r") or k.startswith("u")]

    class Fixed:
        def __init__(self):
            self.i = 0

        def randint(self, a, b):
            if a > b:
                raise ValueError("empty range")
            v = draws[self.i] if self.i < len(draws) else a
            self.i += 1
            v = int(v)
            return min(max(v, a), b)

        def uniform(self, a, b):
            v = draws[self.i] if self.i < len(draws) else a
            self.i += 1
            return v

    saved = mod.random
    mod.random = Fixed()
    try:
        try:
            res = Random().random_float(start, end, precision)
        except Exception as ex:
            return False, "random_float(%r, %r, %d) raised %s: %s" % (start, end, precision, type(ex).__name__, ex)
    finally:
        mod.random = saved
    ok = start <= res <= end
    return ok, "random_float(%r, %r, %d) with draws %r returned %r" % (start, end, precision, draws, res)


def lemma_check(precision, n=2000, seed=0):
    """differential validation of the rounding lemma on concrete values: round(k / 10**p, p) == k / 10**p"""
    import random as rnd
    r = rnd.Random(seed)
    scale = 10 ** precision
    bad = []
    for _ in range(n):
        k = r.randint(-(2 ** 53) // scale // 4, (2 ** 53) // scale // 4) if r.random() < 0.5 else r.randint(-10 ** 6, 10 ** 6)
        x = k / scale
        if round(x, precision) != x:
            bad.append(k)
    return bad


# ----------------------------------------------------------------------------------------------------------------
# Validator.visit_float / Substitutor.visit_float on symbolic doubles (C02, C03, C08, C04, C05, C12 for floats)

def _isclose_py(a, b, *, rel_tol=1e-09, abs_tol=0.0):
    """math.isclose as documented / as implemented in CPython, on overloaded operands"""
    if a == b:
        return True
    if a == float("inf") or a == float("-inf") or b == float("inf") or b == float("-inf"):
        return False
    diff = abs(b - a)
    return ((diff <= abs(rel_tol * b)) or (diff <= abs(rel_tol * a))) or (diff <= abs_tol)


def _isfinite_py(x):
    return bool(x == x) and bool(x != float("inf")) and bool(x != float("-inf"))


def t_isclose(a, b, F):
    """z3 term: math.isclose(a, b) with the default tolerances (independent statement for the oracle)"""
    inf = z3.fpPlusInfinity(F)
    ninf = z3.fpMinusInfinity(F)
    rel = z3.FPVal(1e-09, F)
    diff = z3.fpAbs(z3.fpSub(RNE, b, a))
    return z3.Or(z3.fpEQ(a, b),
                 z3.And(z3.Not(z3.fpEQ(a, inf)), z3.Not(z3.fpEQ(a, ninf)), z3.Not(z3.fpEQ(b, inf)), z3.Not(z3.fpEQ(b, ninf)),
                        z3.Or(z3.fpLEQ(diff, z3.fpAbs(z3.fpMul(RNE, rel, b))), z3.fpLEQ(diff, z3.fpAbs(z3.fpMul(RNE, rel, a))))))


def t_finite(a):
    return z3.And(z3.Not(z3.fpIsNaN(a)), z3.Not(z3.fpIsInf(a)))


def t_accepts(cfg, x, mn, mx, v, F):
    """z3 term: 'v conforms to schema.float[(x)][.min(mn)][.max(mx)][.precision(p)]' in the words of C02: equals the
    fixed value within the documented tolerance (isclose; with a precision: equal after scaling by 10**p and rounding
    to an integer, exact comparison when scaling is not finite), and no bound is violated."""
    has_value, has_min, has_max, p = cfg
    conj = []
    if has_value:
        if p is None:
            conj.append(t_isclose(v, x, F))
        else:
            sc = z3.FPVal(float(10 ** p), F)
            a, e = z3.fpMul(RNE, v, sc), z3.fpMul(RNE, x, sc)
            conj.append(z3.If(z3.And(t_finite(a), t_finite(e)),
                              z3.fpEQ(z3.fpRoundToIntegral(z3.RNE(), a), z3.fpRoundToIntegral(z3.RNE(), e)),
                              z3.fpEQ(v, x)))
    if has_min:
        conj.append(z3.fpGEQ(v, mn))      # "lies within min/max": a NaN lies within nothing
    if has_max:
        conj.append(z3.fpLEQ(v, mx))
    return z3.And(*conj) if conj else z3.BoolVal(True)


class _FloatMeta(type):
    def __instancecheck__(cls, inst):
        return isinstance(inst, float)

    def __call__(cls, x=0.0):
        return x if isinstance(x, SymFP) else (SymFP(x.t) if isinstance(x, SymInt) else float(x))


class FloatShim(metaclass=_FloatMeta):
    """stands for the name `float` in the module under execution: isinstance still works, float(x) keeps symbols"""


def int_shim(x, *a):
    return x.__int__() if isinstance(x, SymFP) else (x if isinstance(x, SymInt) else int(x, *a))


class _Shims:
    """bind isclose / isfinite / int / float in d42.validation._validator to overloadable Python versions for the run
    (CPython would copy an int/float subclass returned by __int__/__float__ into an exact object, losing the term)"""

    def __enter__(self):
        import d42.validation  # noqa: F401
        import d42.substitution  # noqa: F401
        self.mod = sys.modules["d42.validation._validator"]
        self.mods = [self.mod, sys.modules["d42.substitution._substitutor"]]
        self.saved = []
        for m in self.mods:
            self.saved.append({k: m.__dict__.get(k, _ABSENT) for k in ("isclose", "isfinite", "int", "float")})
            if "isclose" in m.__dict__:
                m.isclose = _isclose_py
            if "isfinite" in m.__dict__:
                m.isfinite = _isfinite_py
            m.int = int_shim
            m.float = FloatShim
        return self

    def __exit__(self, *exc):
        for m, saved in zip(self.mods, self.saved):
            for k, v in saved.items():
                if v is _ABSENT:
                    m.__dict__.pop(k, None)
                else:
                    m.__dict__[k] = v
        return False


_ABSENT = object()


def dsl_assumptions(cfg, x, mn, mx):
    """what the DSL itself guarantees about declared parameters (it rejects min > value and max < value), no NaN"""
    has_value, has_min, has_max, p = cfg
    out = [z3.Not(z3.fpIsNaN(x)), z3.Not(z3.fpIsNaN(mn)), z3.Not(z3.fpIsNaN(mx))]
    if has_value and has_min:
        out.append(z3.Not(z3.fpGT(mn, x)))
    if has_value and has_max:
        out.append(z3.Not(z3.fpLT(mx, x)))
    return out


def _mk_float_schema(cfg, x, mn, mx):
    from d42.declaration.types import FloatSchema
    from d42.declaration.types._float_schema import FloatProps
    has_value, has_min, has_max, p = cfg
    reg = {}
    if has_value:
        reg["value"] = SymFP(x)
    if has_min:
        reg["min"] = SymFP(mn)
    if has_max:
        reg["max"] = SymFP(mx)
    if p is not None:
        reg["precision"] = p
    return FloatSchema(FloatProps(reg))


def _solve(extra, timeout):
    s = z3.SolverFor("QF_FP")
    s.set("timeout", int(timeout * 1000))
    s.add(*extra)
    t0 = time.time()
    verdict = str(s.check())
    model = None
    if verdict == "sat":
        m = s.model()
        model = {str(d): fp_to_py(m[d], E.eb, E.sb) for d in m.decls()}
    return verdict, model, round(time.time() - t0, 2)


def explore_visit_float(cfg, eb=11, sb=53, z3_timeout=60, budget_s=1e9):
    """Run the real Validator.visit_float on a symbolic double against a float schema whose declared parameters are
    symbolic doubles (cfg = (has_value, has_min, has_max, precision or None)).  Per path:
      * an exception on a feasible path violates C08 (totality);
      * verdict != t_accepts(...) violates C02;
      * every reported error must be true of the value (C03): Value error => not value-equal, Min => v < min, Max => v > max.
    NaN declared parameters are excluded (the DSL accepts them; known finding F13)."""
    global E
    from d42.validation import Validator
    from d42.validation import errors as VE
    E = Engine(eb, sb)
    E.round_lemma_uses = E.round_model_uses = 0
    F = E.F
    records = []
    t_start = time.time()
    with _Shims():
        while True:
            E.reset()
            x, mn, mx, v = z3.FP("x", F), z3.FP("mn", F), z3.FP("mx", F), z3.FP("v", F)
            assume = dsl_assumptions(cfg, x, mn, mx)
            S = _mk_float_schema(cfg, x, mn, mx)
            want = t_accepts(cfg, x, mn, mx, v, F)
            checks = []
            try:
                res = Validator().visit_float(S, value=SymFP(v))
                errs = res.get_errors()
                outcome = "accept" if not errs else "reject:" + ",".join(type(e).__name__.replace("ValidationError", "") for e in errs)
                checks.append(("verdict", z3.Not(want) if not errs else want))
                for e in errs:
                    if isinstance(e, VE.ValueValidationError):
                        checks.append(("value-error-true", t_accepts((True, False, False, cfg[3]), x, mn, mx, v, F)))
                    elif isinstance(e, VE.MinValueValidationError):
                        checks.append(("min-error-true", z3.fpGEQ(v, mn)))
                    elif isinstance(e, VE.MaxValueValidationError):
                        checks.append(("max-error-true", z3.fpLEQ(v, mx)))
                    else:
                        checks.append(("unexpected-error-kind", z3.BoolVal(True)))
            except UnwindingFailure:
                raise
            except Exception as ex:
                outcome = "raise %s" % type(ex).__name__
                checks.append(("no-exception", z3.BoolVal(True)))
            for name, bad in checks:
                verdict, model, dt = _solve(assume + E.pc + [bad], z3_timeout)
                records.append({"cfg": list(cfg), "decisions": list(E.decisions[:E.pos]), "outcome": outcome, "check": name,
                                "verdict": verdict, "model": model, "solver_s": dt})
            if time.time() - t_start > budget_s:
                # never reported as success: the caller sees an 'unknown' record for the unexplored remainder
                records.append({"cfg": list(cfg), "decisions": list(E.decisions[:E.pos]), "outcome": "exploration budget exhausted",
                                "check": "budget", "verdict": "unknown", "model": None, "solver_s": 0.0})
                break
            if not E.next_path():
                break
    return records


def replay_visit_float(cfg, model):
    """plain-CPython replay of a visit_float counterexample: returns (ok, detail)"""
    import math as _m
    from d42 import schema, validate
    has_value, has_min, has_max, p = cfg
    g = lambda k: model.get(k) if model.get(k) is not None else 0.0   # noqa: E731
    x, mn, mx, v = g("x"), g("mn"), g("mx"), g("v")
    s = schema.float
    try:
        if has_value:
            s = s(x)
        if has_min:
            s = s.min(mn)
        if has_max:
            s = s.max(mx)
        if p is not None:
            s = s.precision(p)
    except Exception as ex:
        return True, "declaration rejected the model's parameters (%s): not a counterexample" % type(ex).__name__
    try:
        res = validate(s, v)
    except Exception as ex:
        return False, "validate(%r, %r) raised %s: %s" % (s, v, type(ex).__name__, ex)
    acc = not res.has_errors()
    want = True
    if has_value:
        if p is None:
            want = _m.isclose(v, x)
        else:
            a, e = v * 10 ** p, x * 10 ** p
            want = (round(a) == round(e)) if (_m.isfinite(a) and _m.isfinite(e)) else (v == x)
    if has_min and not (v >= mn):
        want = False
    if has_max and not (v <= mx):
        want = False
    return acc == want, "validate(%r, %r): accepted=%s, semantics say %s" % (s, v, acc, want)


def explore_substitute_float(cfg, eb=11, sb=53, z3_timeout=60, mode="usable", budget_s=1e9):
    """Run the real Substitutor.visit_float: R = S % v for symbolic doubles, then the real validator on R.
      C12: only SubstitutionError may escape; R must accept v (what it generates) and R % v must succeed again;
      C04: v conforms to S  =>  R accepts v;   C05: R accepts w => S accepts w  (w a second symbolic double)."""
    global E
    from d42.substitution import Substitutor
    from d42.substitution.errors import SubstitutionError
    from d42.validation import Validator
    E = Engine(eb, sb)
    E.round_lemma_uses = E.round_model_uses = 0
    F = E.F
    records = []
    t_start = time.time()
    with _Shims():
        while True:
            E.reset()
            x, mn, mx, v, w = z3.FP("x", F), z3.FP("mn", F), z3.FP("mx", F), z3.FP("v", F), z3.FP("w", F)
            assume = dsl_assumptions(cfg, x, mn, mx) + [z3.Not(z3.fpIsNaN(v))]
            S = _mk_float_schema(cfg, x, mn, mx)
            checks = []
            sub = Substitutor()
            try:
                try:
                    R = sub.visit_float(S, value=SymFP(v))
                except SubstitutionError:
                    outcome = "raised SubstitutionError"
                    checks.append(("conforming-value-refused", t_accepts(cfg, x, mn, mx, v, F)))
                    R = None
                if R is not None:
                    outcome = "substituted"
                    pinned = R.props.value
                if R is not None and mode == "usable":
                    accR_v = not Validator().visit_float(R, value=SymFP(v)).get_errors()
                    if not accR_v:
                        checks.append(("result-rejects-substituted-value", z3.BoolVal(True)))
                    if pinned is None or not isinstance(pinned, SymFP):
                        checks.append(("result-has-no-float-value", z3.BoolVal(True)))
                    else:
                        # C04: the result carries the substituted data (within the documented float tolerance)
                        checks.append(("pinned-value-differs", z3.Not(t_isclose(pinned.t, v, F))))
                        gen_ok = not Validator().visit_float(R, value=pinned).get_errors()
                        if not gen_ok:
                            checks.append(("result-rejects-what-it-generates", z3.BoolVal(True)))
                    try:
                        sub.visit_float(R, value=SymFP(v))
                    except SubstitutionError:
                        checks.append(("not-idempotent", z3.BoolVal(True)))
                if R is not None and mode == "narrow":
                    accR_w = not Validator().visit_float(R, value=SymFP(w)).get_errors()
                    if accR_w:
                        checks.append(("widened", z3.Not(t_accepts(cfg, x, mn, mx, w, F))))
                        outcome += ",R accepts w"
            except UnwindingFailure:
                raise
            except Exception as ex:
                outcome = "raise %s" % type(ex).__name__
                checks = [("only-SubstitutionError", z3.BoolVal(True))]
            if not checks:
                checks.append(("path-feasible", z3.BoolVal(False)))
            for name, bad in checks:
                verdict, model, dt = _solve(assume + E.pc + [bad], z3_timeout)
                records.append({"cfg": list(cfg), "decisions": list(E.decisions[:E.pos]), "outcome": outcome, "check": name,
                                "verdict": verdict, "model": model, "solver_s": dt})
            if time.time() - t_start > budget_s:
                # never reported as success: the caller sees an 'unknown' record for the unexplored remainder
                records.append({"cfg": list(cfg), "decisions": list(E.decisions[:E.pos]), "outcome": "exploration budget exhausted",
                                "check": "budget", "verdict": "unknown", "model": None, "solver_s": 0.0})
                break
            if not E.next_path():
                break
    return records


def replay_substitute_float(cfg, model, check):
    import math as _m
    from d42 import schema, substitute, validate
    from d42.substitution.errors import SubstitutionError
    has_value, has_min, has_max, p = cfg
    g = lambda k: model.get(k) if model.get(k) is not None else 0.0   # noqa: E731
    x, mn, mx, v, w = g("x"), g("mn"), g("mx"), g("v"), g("w")
    s = schema.float
    try:
        if has_value:
            s = s(x)
        if has_min:
            s = s.min(mn)
        if has_max:
            s = s.max(mx)
        if p is not None:
            s = s.precision(p)
    except Exception as ex:
        return True, "declaration rejected the model's parameters (%s)" % type(ex).__name__
    try:
        try:
            r = substitute(s, v)
        except SubstitutionError:
            ok = validate(s, v).has_errors()
            return ok, "substitute(%r, %r) raised SubstitutionError; value conforms to S: %s" % (s, v, not ok)
        if not _m.isclose(r.props.value, v):
            return False, "%r %% %r pins %r instead of the substituted value" % (s, v, r.props.value)
        if validate(r, v).has_errors():
            return False, "%r %% %r = %r rejects %r" % (s, v, r, v)
        if validate(r, r.props.value).has_errors():
            return False, "%r rejects its own fixed value" % (r,)
        try:
            substitute(r, v)
        except SubstitutionError:
            return False, "(%r %% %r) %% %r raised SubstitutionError" % (s, v, v)
        if not validate(r, w).has_errors() and validate(s, w).has_errors():
            return False, "%r %% %r = %r accepts %r which %r rejects" % (s, v, r, w, s)
    except SubstitutionError:
        raise
    except Exception as ex:
        return False, "raised %s: %s" % (type(ex).__name__, ex)
    return True, "no violation on the real code for x=%r mn=%r mx=%r v=%r w=%r" % (x, mn, mx, v, w)


# ----------------------------------------------------------------------------------------------------------------
# Generator.visit_float composed with Random.random_float and Validator.visit_float (C01 for floats)

def explore_generate_float(cfg, eb=11, sb=53, z3_timeout=60, budget_s=1e9):
    """cfg = (has_min, has_max, precision or None).  Runs the real Generator.visit_float (default-bound widening, precision
    dispatch) -> real Random.random_float (stubbed `random`) -> real Validator.visit_float on the generated value.
    Assumes non-NaN bounds with min <= max; with a precision both bounds must be declared and |bound| * 10**p < 2**51
    (the default bounds +-2**63 times 10**p are not exact integers in the format: outside E2's reach, decided by E1's
    tape harnesses without precision and by kernel 1 for the grid arithmetic)."""
    global E
    import d42.generation  # noqa: F401
    from d42.declaration.types import FloatSchema
    from d42.declaration.types._float_schema import FloatProps
    from d42.generation import Generator, Random, RegexGenerator
    from d42.validation import Validator
    has_value = False
    if len(cfg) == 4:
        has_value, has_min, has_max, p = cfg
    else:
        has_min, has_max, p = cfg
    if p is not None and not has_value and not (has_min and has_max):
        return []
    rmod = sys.modules["d42.generation._random"]
    real_random = rmod.random
    E = Engine(eb, sb)
    E.round_lemma_uses = E.round_model_uses = 0
    F = E.F
    records = []
    t_start = time.time()
    with _Shims():
        try:
            while True:
                E.reset()
                stub = StubRandom()
                rmod.random = stub
                mn, mx, x = z3.FP("mn", F), z3.FP("mx", F), z3.FP("x", F)
                assume = [z3.Not(z3.fpIsNaN(mn)), z3.Not(z3.fpIsNaN(mx)), z3.Not(z3.fpIsInf(mn)), z3.Not(z3.fpIsInf(mx))]
                if has_min and has_max:
                    assume.append(z3.fpLEQ(mn, mx))
                if has_value:     # what the DSL guarantees for a fixed value: not NaN here (F13), min <= value <= max
                    assume.append(z3.Not(z3.fpIsNaN(x)))
                    if has_min:
                        assume.append(z3.fpLEQ(mn, x))
                    if has_max:
                        assume.append(z3.fpLEQ(x, mx))
                if p is not None and not has_value:
                    B = float((1 << (sb - 2)) // 10 ** p)
                    assume += [z3.fpLEQ(z3.FPVal(-B, F), mn), z3.fpLEQ(mx, z3.FPVal(B, F))]
                reg = {}
                if has_value:
                    reg["value"] = SymFP(x)
                if has_min:
                    reg["min"] = SymFP(mn)
                if has_max:
                    reg["max"] = SymFP(mx)
                if p is not None:
                    reg["precision"] = p
                S = FloatSchema(FloatProps(reg))
                checks = []
                try:
                    rnd = Random()
                    v = Generator(rnd, RegexGenerator(rnd)).visit_float(S)
                    if not isinstance(v, (SymFP, float)):
                        outcome, checks = "generated a non-float", [("generated-type", z3.BoolVal(True))]
                    else:
                        vv = v if isinstance(v, SymFP) else SymFP(z3.FPVal(float(v), F))
                        errs = Validator().visit_float(S, value=vv).get_errors()
                        outcome = "generated, " + ("accepted" if not errs else "REJECTED:" + ",".join(type(e).__name__ for e in errs))
                        checks.append(("generated-value-validates", z3.BoolVal(bool(errs))))
                except UnwindingFailure:
                    raise
                except Exception as ex:
                    outcome, checks = "raise %s" % type(ex).__name__, [("no-exception", z3.BoolVal(True))]
                for name, bad in checks:
                    verdict, model, dt = _solve(assume + E.pc + stub.facts + [bad], z3_timeout)
                    records.append({"cfg": list(cfg), "decisions": list(E.decisions[:E.pos]), "outcome": outcome, "check": name,
                                    "verdict": verdict, "model": model, "solver_s": dt, "draws": [k for k, _ in stub.draws]})
                if time.time() - t_start > budget_s:
                    records.append({"cfg": list(cfg), "decisions": [], "outcome": "exploration budget exhausted", "check": "budget",
                                    "verdict": "unknown", "model": None, "solver_s": 0.0})
                    break
                if not E.next_path():
                    break
        finally:
            rmod.random = real_random
    return records


def replay_generate_float(cfg, model):
    from d42 import fake, schema, validate
    has_value = False
    if len(cfg) == 4:
        has_value, has_min, has_max, p = cfg
    else:
        has_min, has_max, p = cfg
    rmod = sys.modules["d42.generation._random"]
    mn, mx = model.get("mn") or 0.0, model.get("mx") or 0.0
    draws = [model[k] for k in sorted(model) if k[0] in "ru" and k[1:].isdigit()]
    s = schema.float
    try:
        if has_value:
            s = s(model.get("x") or 0.0)
        if has_min:
            s = s.min(mn)
        if has_max:
            s = s.max(mx)
        if p is not None:
            s = s.precision(p)
    except Exception as ex:
        return True, "declaration rejected the model's parameters (%s)" % type(ex).__name__

    class Fixed:
        i = 0

        def randint(self, a, b):
            if a > b:
                raise ValueError("empty range")
            v = draws[self.i] if self.i < len(draws) else a
            self.i += 1
            return min(max(int(v), a), b)

        def uniform(self, a, b):
            v = draws[self.i] if self.i < len(draws) else a
            self.i += 1
            return v

    saved = rmod.random
    rmod.random = Fixed()
    try:
        try:
            v = fake(s)
        except Exception as ex:
            return False, "fake(%r) raised %s: %s" % (s, type(ex).__name__, ex)
    finally:
        rmod.random = saved
    ok = not validate(s, v).has_errors()
    return ok, "fake(%r) with draws %r returned %r (%s)" % (s, draws, v, "accepted" if ok else "rejected by its own schema")
