"""Child-process entry point for the E2 obligations on Validator.visit_float / Substitutor.visit_float.
usage: fpsym_run.py <visit|usable|narrow> <quick|thorough>   -> one '@@FPSYM <json>' line"""
import json
import multiprocessing
import os
import sys
import time

sys.path.insert(0, os.path.dirname(os.path.abspath(__file__)))


def configs(kind, tier):
    precs = (None, 1, 2, 15) if tier == "thorough" else (None, 1, 15)
    if kind == "generate":
        out = [(False, a, b, p) for a in (False, True) for b in (False, True) for p in (precs + ((3, 7) if tier == "thorough" else ()))
               if p is None or (a and b)]
        out += [(True, a, b, p) for a in (False, True) for b in (False, True) for p in precs]
        return out
    out = []
    for hv in (False, True):
        for hm in (False, True):
            for hx in (False, True):
                for p in precs:
                    if kind == "narrow" and tier != "thorough" and hv and p == 15:
                        continue   # ~80 s each: thorough tier only
                    out.append((hv, hm, hx, p))
    return out


def job(args):
    kind, cfg, timeout, budget = args
    import fpsym
    t0 = time.time()
    try:
        if kind == "generate":
            recs = fpsym.explore_generate_float(cfg, z3_timeout=timeout, budget_s=budget)
        elif kind == "visit":
            recs = fpsym.explore_visit_float(cfg, z3_timeout=timeout, budget_s=budget)
        else:
            recs = fpsym.explore_substitute_float(cfg, z3_timeout=timeout, mode=kind, budget_s=budget)
        for r in recs:
            if r.get("model"):
                if kind == "generate":
                    ok, detail = fpsym.replay_generate_float(cfg, r["model"])
                elif kind == "visit":
                    ok, detail = fpsym.replay_visit_float(cfg, r["model"])
                else:
                    ok, detail = fpsym.replay_substitute_float(cfg, r["model"], r["check"])
                r["replay_ok"], r["replay_detail"] = ok, detail
        return {"cfg": list(cfg), "records": recs, "wall_s": round(time.time() - t0, 2)}
    except Exception as ex:      # UnwindingFailure or an engine problem: reported, never silently dropped
        return {"cfg": list(cfg), "records": [], "error": "%s: %s" % (type(ex).__name__, ex), "wall_s": round(time.time() - t0, 2)}


def main():
    kind, tier = sys.argv[1], sys.argv[2]
    timeout = 120 if tier == "thorough" else 40
    budget = 1800 if tier == "thorough" else 150
    jobs = [(kind, c, timeout, budget) for c in configs(kind, tier)
            if not ("skip-f12" in sys.argv and kind == "narrow" and c[0] and c[3] is None)]
    with multiprocessing.Pool(min(12, len(jobs))) as pool:
        out = pool.map(job, jobs, chunksize=1)
    print("@@FPSYM " + json.dumps(out))


if __name__ == "__main__":
    main()
