"""Source of MANIFEST.json (bin/mkmanifest)."""
import json
import os

ROOT = os.path.dirname(os.path.dirname(os.path.abspath(__file__)))

TRUST = ("Trusted: CPython 3.12, CrossHair 0.0.110's models of int/str/bytes/IEEE float/re and its "
         "path-exhaustion bookkeeping, z3 5.1.0, the oracle code in /verif/engine/hlib.py. Mitigated by "
         "replaying every counterexample and every reachability witness in plain CPython against the "
         "unpatched code. Bounds (skeleton catalogue, string/list lengths, tape lengths) are listed in "
         "the evidence file; nothing is claimed outside them.")

CHECKS = {
    "C02": dict(
        text="Bounded symbolic execution of the real Validator (and the == entry point) per schema "
             "skeleton: every constraint parameter and every value leaf is a solver variable; the check "
             "passes only if CrossHair+z3 confirm on ALL paths that the verdict equals an independent "
             "statement of the schema semantics. Within the structural bound this is a decision over all "
             "integers / doubles / short strings, which no finite test list gives.",
        design="4/C02"),
    "C03": dict(
        text="Bounded symbolic execution of Validator and SubstitutorValidator on the C02 skeletons; for "
             "EVERY error on EVERY path the solver must confirm: path resolves to the reported object, the "
             "stated fact holds, fields are the declared parameters, the message names the path.",
        design="4/C03"),
    "C01": dict(
        text="Bounded symbolic execution of the real Generator+Validator with the stdlib random module replaced "
             "by a nondeterministic tape: every draw of every fake() is a solver variable, so the extreme outcome "
             "of every draw is covered; constraint parameters are symbolic (bounds beyond generator defaults).",
        design="4/C01"),
    "C12": dict(
        text="Bounded symbolic execution of the real Substitutor per schema/value skeleton: only SubstitutionError "
             "may escape, the result must generate (under the tape RNG) a value it accepts, and S % v % v == S % v.",
        design="4/C04-C05-C12"),
    "C04": dict(
        text="Bounded symbolic execution of Substitutor+Validator+Generator per skeleton with two independent "
             "symbolic values: the substituted v and a probe w. Solver must confirm on all paths: R accepts a "
             "conforming v; R accepts w only if w agrees with v at every substituted position; fake(R) agrees "
             "with v for every draw; keys absent from v keep schema and optionality.",
        design="4/C04-C05-C12"),
    "C05": dict(
        text="Same skeletons; relational post-condition decided by the solver over all (v, w): validate(S % v, w) "
             "clean implies validate(S, w) clean, and every value generated from S % v validates against S.",
        design="4/C04-C05-C12"),
    "C08": dict(
        text="Bounded symbolic execution of validate / validate_or_fail / format_result: value leaves are symbolic "
             "(all doubles incl. inf/nan, unbounded ints) and one node, at a solver-chosen position, is replaced "
             "by a solver-chosen member of a hostile-value zoo. Any escaping exception is a counterexample.",
        design="4/C08"),
    "C11": dict(
        text="Bounded symbolic execution of the real refinement methods: for every 2-/3-subset of the non-value "
             "refinements of int/float/str (with and without a fixed value) ALL permutations are applied with the "
             "same symbolic parameters; the solver must confirm on all paths that either every order raises "
             "DeclarationError or every order succeeds with pair-wise equal schemas.",
        design="4/C11"),
    "C09": dict(
        text="Bounded symbolic execution of the real RegexGenerator per concrete pattern with every RNG outcome a solver "
             "variable (branch, repeat count, range ordinal, class member): the solver must confirm on all paths that the "
             "result fully matches the pattern and validates; for unsupported constructs that the generator raises.",
        design="4/C09"),
    "C17": dict(
        text="Bounded symbolic execution of the real generator with (a) the draw tape fixed and the iteration order of "
             "every builtin set iterated inside d42 chosen twice by the solver (model of PYTHONHASHSEED; opcode-level "
             "interception), outputs must be equal - counterexamples are replayed in fresh interpreters with different "
             "PYTHONHASHSEED; (b) the same tape before and after an unrelated solver-chosen fake(): outputs must be equal.",
        design="4/C17"),
    "C18": dict(
        text="Menu-bounded exhaustive enumeration driven by the solver: key and separator menu indices, optional flags, the "
             "...: ... entry and the flat-key order are symbolic; CrossHair+z3 enumerate the finite product and confirm on "
             "every member that the real rollout inverts flattening (leaf identity, optional markers) and is the identity on "
             "nested input. (Dict insertion hashes keys, so keys cannot stay symbolic - stated.)",
        design="4/C18"),
    "C19": dict(
        text="Menu-bounded exhaustive enumeration driven by the solver: 3-statement modules are assembled from a grammar of "
             "statement forms, import layouts, v1 modules, name selections, aliases and line joins chosen by symbolic "
             "indices; CrossHair+z3 enumerate the finite product and confirm on every member that the real rewrite_imports "
             "returns valid Python whose AST differs from the input's only by the expected import replacements; every "
             "mapping entry is rewritten on its own and its target imported. (Source text goes through CPython's parser, "
             "so it cannot stay symbolic - the solver is an exhaustive enumerator here, stated.)",
        design="4/C19"),
    "C10": dict(
        text="Bounded symbolic execution of the real declaration methods, one harness per call chain: every argument "
             "is a symbolic scalar of any of five types or a solver-chosen member of a wrong-type menu. Solver must "
             "confirm on all paths: only DeclarationError escapes, a rejected call leaves the receiver's registry "
             "untouched, a fixed value validates against the returned schema, re-declaration is rejected.",
        design="4/C10"),
    "C13": dict(
        text="Bounded symbolic execution of the combinators with relational oracles: the real validator on the "
             "operands decides what |, any, +, make_required and alias must accept; bounds, key flags, presence "
             "flags and leaves are solver variables; member identity via [] and iteration is asserted.",
        design="4/C13"),
    "C14": dict(
        text="Bounded symbolic execution of from_native + Validator + Generator on nested plain values with symbolic "
             "leaves and an independent symbolic probe value: the schema accepts its value, generates exactly it "
             "without drawing, and accepts the probe iff it is the same value (type-aware); other kinds -> ValueError.",
        design="4/C14"),
    "C15": dict(
        text="Bounded symbolic execution of ==/!= on pairs and triples of schemas built from independent symbolic "
             "parameters, flags and form selectors: reflexive, symmetric, transitive, != is the negation, equal "
             "schemas give equal verdicts on a symbolic probe (discrimination in contrapositive form), and "
             "schema == value iff the value validates.",
        design="4/C15"),
    "C06": dict(
        text="Menu-bounded exhaustive enumeration driven by the solver: presence flags, len-form selectors and menu "
             "indices are symbolic, CrossHair+z3 enumerate the finite product and confirm on every member that the real "
             "Representor's text evaluates to an equal schema with the same text. (eval is a C boundary: values cannot "
             "stay symbolic here, which is stated - the solver is used as an exhaustive enumerator.)",
        design="4/C06"),
    "C07": dict(
        text="Inductive step decided by bounded symbolic execution: from a pool of schemas with symbolic parameters one "
             "public operation with symbolic arguments runs; the solver must confirm on all paths that the deep "
             "fingerprint (structure + identity of leaves) of every pooled schema, of every argument and of d42's "
             "visitor singletons is unchanged; caller-owned containers are mutated afterwards by a solver-chosen "
             "mutation and the schema built from them must not change.",
        design="4/C07"),
    "C16": dict(
        text="Bounded symbolic execution of all four visitors on schema trees in which a solver-chosen subset of the "
             "first four nodes is replaced by a forwarding CustomSchema: errors (kind, path, object, fields), printed "
             "form, generated values (same draw tape) and substitution outcome must be identical to the plain tree.",
        design="4/C16"),
}

NOT_YET = {
}

NOT_APPLICABLE = {
}


def build():
    props = [json.loads(l)["id"] for l in open(os.path.join(ROOT, "properties.jsonl"))]
    checks = []
    na = []
    for p in props:
        if p in CHECKS:
            c = CHECKS[p]
            checks.append({
                "property_id": p,
                "quick_cmd": "bin/check %s --tier quick -q" % p,
                "thorough_cmd": "bin/check %s --tier thorough -q" % p,
                "evidence_file": "/verif/evidence/%s.json" % p,
                "replay_cmd_template": "bin/check --replay {path}",
                "engine": c.get("engine", "crosshair+z3" + (" and fpsym+z3" if p in ("C01", "C02", "C03", "C04", "C05", "C08", "C12") else "")),
                "level_claimed": {"category": "model_checking", "text": c["text"],
                                  "design_ref": "DESIGN.md section " + c["design"]},
                "level_note": c.get("note", TRUST),
                "technique": c.get("technique", "bounded symbolic execution of the real code (CrossHair + z3), "
                                                "solver verdict per path, counterexamples replayed"),
            })
        elif p in NOT_APPLICABLE:
            na.append({"property_id": p, "reason": NOT_APPLICABLE[p]})
        else:
            na.append({"property_id": p, "reason": NOT_YET.get(p, "check not built yet in this round "
                                                                "(planned: DESIGN.md section 4)")})
    return {
        "version": 1,
        "setup_cmd": "bin/ensure_env",
        "hooks": {
            "guard": "D42_VERIF",
            "enable": "no source hooks are needed: all stubs are installed by attribute assignment on the "
                      "imported d42 modules from the harness process",
            "baseline_off_cmd": "cd /repo && /venv/bin/python -m pytest -ra -q -p no:cacheprovider --timeout=900 "
                                "--continue-on-collection-errors",
            "source_commits": [],
            "add_only": True,
        },
        "engines": [
            {"name": "crosshair+z3", "path": "/verif/engine",
             "serves_properties": sorted(CHECKS),
             "kind_free_text": "symbolic execution of the live /repo/d42 modules with CrossHair 0.0.110, "
                               "z3 5.1.0 deciding every path; own driver, stubs, oracles and replayer"},
            {"name": "fpsym+z3(+cvc5)", "path": "/verif/engine/fpsym.py",
             "serves_properties": ["C01", "C02", "C03", "C04", "C05", "C08", "C12"],
             "kind_free_text": "own operator-overloading executor: the real Random.random_float, Validator.visit_float and "
                               "Substitutor.visit_float run on operands carrying z3 Float64 terms, one pure QF_FP query per "
                               "path (cvc5 binary as second solver in the thorough tier), models replayed on the real code"},
        ],
        "checks": checks,
        "not_applicable": na,
        "notes": "See DESIGN.md. Exit 0 = every obligation explored held (inconclusive harnesses are listed "
                 "in the evidence and never counted as success); exit 1 + VIOLATION line = counterexample "
                 "replayed against the real code; exit 2 = harness/engine error.",
    }
