import argparse
import os
import sys

from engine import driver


def main():
    ap = argparse.ArgumentParser()
    ap.add_argument("prop")
    ap.add_argument("--tier", default=None)
    ap.add_argument("--only", nargs="*")
    ap.add_argument("-q", "--quiet", action="store_true")
    a = ap.parse_args()
    tier = os.environ.get("VERIF_TIER") or a.tier or "quick"
    if tier not in ("quick", "thorough"):
        tier = "quick"
    seed = int(os.environ.get("VERIF_SEED", "0") or 0)
    sys.exit(driver.run_property(a.prop.upper(), tier, seed, only=a.only, verbose=not a.quiet))


if __name__ == "__main__":
    main()
