import argparse
import os
import sys

from engine import driver


def _maybe_snapshot():
    """development aid: VERIF_SNAPSHOT=1 runs the check from a private copy of engine/ and harness/, so that a long
    run is not disturbed by edits made to /verif meanwhile (evidence and replays still go to /verif unless VERIF_OUT)."""
    import shutil
    import subprocess
    import tempfile
    if os.environ.get("VERIF_SNAPSHOT") != "1" or os.environ.get("VERIF_IN_SNAPSHOT") == "1":
        return
    root = os.path.dirname(os.path.dirname(os.path.abspath(__file__)))
    tmp = tempfile.mkdtemp(prefix="d42verif.snap.")
    try:
        for d in ("engine", "harness"):
            shutil.copytree(os.path.join(root, d), os.path.join(tmp, d), ignore=shutil.ignore_patterns("__pycache__"))
        shutil.copy(os.path.join(root, "known_findings.json"), tmp)
        env = dict(os.environ, VERIF_IN_SNAPSHOT="1", VERIF_OUT=os.environ.get("VERIF_OUT") or root)
        os.symlink(os.path.join(root, ".venv"), os.path.join(tmp, ".venv"))
        rc = subprocess.call([sys.executable, "-m", "engine.cli"] + sys.argv[1:], cwd=tmp, env=env)
    finally:
        shutil.rmtree(tmp, ignore_errors=True)
    sys.exit(rc)


def main():
    _maybe_snapshot()
    ap = argparse.ArgumentParser()
    ap.add_argument("prop")
    ap.add_argument("--tier", default=None)
    ap.add_argument("--only", nargs="*")
    ap.add_argument("-q", "--quiet", action="store_true")
    a = ap.parse_args()
    tier = os.environ.get("VERIF_TIER") or a.tier or "quick"
    if tier not in ("quick", "thorough"):
        tier = "quick"
    seed = int(os.environ.get("VERIF_SEED", "0") or 0)
    sys.exit(driver.run_property(a.prop.upper(), tier, seed, only=a.only, verbose=not a.quiet))


if __name__ == "__main__":
    main()
