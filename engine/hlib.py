"""Harness library: everything a generated harness imports with `from hlib import *`.

Works both under CrossHair (symbolic arguments) and in plain CPython (replay).
Nothing here looks at d42's validator to decide what "conforms" means: the oracles are
written from the property texts.
"""
import math
import re
import sys
from datetime import date, datetime
from decimal import Decimal
from fractions import Fraction
from uuid import UUID

try:
    from crosshair.util import IgnoreAttempt
    UNDER_CROSSHAIR = True
except Exception:  # plain replay without crosshair
    UNDER_CROSSHAIR = False

    class IgnoreAttempt(BaseException):
        pass

import d42
import d42.generation  # noqa: F401  (binds Schema.__invert__)
from d42 import (fake, optional, represent, schema, substitute, validate,  # noqa: F401
                 validate_or_fail, ValidationException)
from d42.declaration import DeclarationError, Schema  # noqa: F401
from d42.declaration.types import (AnySchema, BoolSchema, BytesSchema, DictSchema,  # noqa: F401
                                   FloatSchema, IntSchema, ListSchema, NoneSchema, StrSchema)
from d42.substitution.errors import SubstitutionError  # noqa: F401
from d42.utils import from_native, make_required, rollout, is_ellipsis  # noqa: F401
from d42.validation import Formatter, Validator, format_result  # noqa: F401
from d42.substitution import SubstitutorValidator  # noqa: F401
from d42.validation import errors as VE  # noqa: F401
from niltype import Nil  # noqa: F401
from th import PathHolder  # noqa: F401

_RANDOM_MOD = sys.modules["d42.generation._random"]
_GEN_MOD = sys.modules["d42.generation._generator"]
_REAL_RANDOM = _RANDOM_MOD.random


def isclose_py(a, b, *, rel_tol=1e-09, abs_tol=0.0):
    """math.isclose as documented (and as implemented in CPython's mathmodule.c)."""
    if a == b:
        return True
    if a == float("inf") or a == float("-inf") or b == float("inf") or b == float("-inf"):
        return False
    diff = abs(b - a)
    return ((diff <= abs(rel_tol * b)) or (diff <= abs(rel_tol * a))) or (diff <= abs_tol)


def isfinite_py(x):
    return x == x and x != float("inf") and x != float("-inf")


_VAL_MOD = sys.modules["d42.validation._validator"]
if UNDER_CROSSHAIR:
    # C-level math functions would force the solver to pick concrete floats; during symbolic
    # execution they are replaced by their documented algorithms (replay uses the real ones).
    _VAL_MOD.isclose = isclose_py
    if hasattr(_VAL_MOD, "isfinite"):
        _VAL_MOD.isfinite = isfinite_py


if UNDER_CROSSHAIR:
    from crosshair.tracers import NoTracing as notrace
else:
    import contextlib
    notrace = contextlib.nullcontext


def assume(cond):
    if not cond:
        raise IgnoreAttempt("assumption")


# --------------------------------------------------------------------------- RNG stub

def clamp(x, lo, hi):
    if x < lo:
        return lo
    if x > hi:
        return hi
    return x


class TapeRandom:
    """Nondeterministic stand-in for the stdlib `random` module as used by
    d42.generation._random: every draw is taken from a tape of (symbolic) values and is
    constrained only by the documented contract of the stdlib function it replaces."""

    def __init__(self, ints=(), chars=(), floats=()):
        self.ints = list(ints)
        self.chars = list(chars)
        self.floats = list(floats)
        self.i = self.c = self.f = 0
        self.draws = 0
        self.n_int = 0
        self.at_low = self.at_high = 0
        self.first_char = False
        self.index_small = False      # C17: short alphabets are indexed, so that their ORDER is observable

    def _next_int(self):
        if self.i >= len(self.ints):
            raise IgnoreAttempt("int tape exhausted")
        v = self.ints[self.i]
        self.i += 1
        return v

    def seed(self, k=None):
        pass

    def randint(self, a, b):
        if a > b:
            raise ValueError("empty range in randrange(%r, %r)" % (0, 0))
        self.draws += 1
        self.n_int += 1
        d = self._next_int()
        if a == b:
            self.at_low += 1
            self.at_high += 1
            return a
        if d <= a:
            self.at_low += 1
            return a
        if d >= b:
            self.at_high += 1
            return b
        return d

    def choice(self, seq):
        n = len(seq)
        if n == 0:
            raise IndexError("Cannot choose from an empty sequence")
        self.draws += 1
        if isinstance(seq, str) and self.first_char:
            return seq[0]
        if isinstance(seq, str) and self.chars and not (self.index_small and n <= 8):
            if self.c >= len(self.chars):
                raise IgnoreAttempt("char tape exhausted")
            ch = self.chars[self.c]
            self.c += 1
            if len(ch) != 1 or ch not in seq:
                raise IgnoreAttempt("char not in alphabet")
            return ch
        d = self._next_int()
        self.n_int += 1
        if n == 1:
            self.at_low += 1
            self.at_high += 1
            return seq[0]
        if d <= 0:
            self.at_low += 1
            return seq[0]
        if d >= n - 1:
            self.at_high += 1
            return seq[n - 1]
        return seq[d]

    def uniform(self, a, b):
        if self.f >= len(self.floats):
            raise IgnoreAttempt("float tape exhausted")
        self.draws += 1
        u = self.floats[self.f]
        self.f += 1
        lo, hi = (a, b) if a <= b else (b, a)
        if not (lo <= u <= hi):
            raise IgnoreAttempt("uniform contract")
        return u

    def shuffle(self, x):
        pass


class tape:
    """with tape(ints, chars, floats) as t: ... fake(...) ...   (restores the real module)"""

    def __init__(self, ints=(), chars=(), floats=()):
        self.t = TapeRandom(ints, chars, floats)

    def __enter__(self):
        _RANDOM_MOD.random = self.t
        return self.t

    def __exit__(self, *exc):
        _RANDOM_MOD.random = _REAL_RANDOM
        return False


# --------------------------------------------------------------------------- results / errors

def clean(result):
    return not result.has_errors()


def ok_validate(s, v):
    return not validate(s, v).has_errors()


def path_items(path):
    return [op.operand for op in path]


def walk(root, path):
    """Follow a PathHolder from the root value (own walker, does not use th.get)."""
    cur = root
    for step in path_items(path):
        cur = cur[step]
    return cur


def render_path(path, root="_"):
    s = root
    for step in path_items(path):
        s += "[%r]" % (step,)
    return s


# --------------------------------------------------------------------------- spec trees
# A spec is a nested tuple whose scalar parameters may be symbolic:
#   ("none",) ("bool", value) ("int", value, min, max) ("float", value, min, max, precision)
#   ("str", value, (len, min_len, max_len), alphabet, substr, pattern) ("bytes", value)
#   ("uuid4", value) ("datetime", value) ("date", value)
#   ("list", None, lens)                 untyped list
#   ("list_t", elem_spec, lens)          schema.list(elem)
#   ("list_e", [spec | ...], lens)       schema.list([...])
#   ("dict", None)                       untyped dict
#   ("dict", [(key, is_optional, spec)...], relaxed)
#   ("any", None) | ("any", [spec...])   ("alias", name, spec)
# Nil marks an absent parameter.  lens = (len, min_len, max_len).

NOLEN = (Nil, Nil, Nil)
E = ...


def _apply_len(s, lens):
    ln, mn, mx = lens
    if ln is not Nil:
        return s.len(ln)
    if mn is not Nil and mx is not Nil:
        return s.len(mn, mx)
    if mn is not Nil:
        return s.len(mn, ...)
    if mx is not Nil:
        return s.len(..., mx)
    return s


def build(spec, hook=None, _ctr=None):
    """Build the real schema through the public DSL only.  hook(schema, i) may replace the schema of the
    i-th node (pre-order numbering of the spec tree) - used to wrap nodes into custom types (C16)."""
    if _ctr is None:
        _ctr = [0]
    me = _ctr[0]
    _ctr[0] += 1
    s = _build(spec, hook, _ctr)
    if hook is not None:
        s = hook(s, me)
    return s


def _build(spec, hook, _ctr):
    k = spec[0]
    if k == "none":
        return schema.none
    if k == "bool":
        return schema.bool if spec[1] is Nil else schema.bool(spec[1])
    if k == "int":
        s = schema.int
        if spec[1] is not Nil:
            s = s(spec[1])
        if spec[2] is not Nil:
            s = s.min(spec[2])
        if spec[3] is not Nil:
            s = s.max(spec[3])
        return s
    if k == "float":
        s = schema.float
        if spec[1] is not Nil:
            s = s(spec[1])
        if spec[2] is not Nil:
            s = s.min(spec[2])
        if spec[3] is not Nil:
            s = s.max(spec[3])
        if spec[4] is not Nil:
            s = s.precision(spec[4])
        return s
    if k == "str":
        s = schema.str
        if spec[1] is not Nil:
            s = s(spec[1])
        if spec[5] is not Nil:
            s = s.regex(spec[5])
        s = _apply_len(s, spec[2])
        if spec[3] is not Nil:
            s = s.alphabet(spec[3])
        if spec[4] is not Nil:
            s = s.contains(spec[4])
        return s
    if k == "bytes":
        return schema.bytes if spec[1] is Nil else schema.bytes(spec[1])
    if k == "uuid4":
        return schema.uuid4 if spec[1] is Nil else schema.uuid4(spec[1])
    if k == "datetime":
        return schema.datetime if spec[1] is Nil else schema.datetime(spec[1])
    if k == "date":
        return schema.date if spec[1] is Nil else schema.date(spec[1])
    if k == "list":
        return _apply_len(schema.list, spec[2])
    if k == "list_t":
        return _apply_len(schema.list(build(spec[1], hook, _ctr)), spec[2])
    if k == "list_e":
        return _apply_len(schema.list([(... if e is ... else build(e, hook, _ctr)) for e in spec[1]]), spec[2])
    if k == "dict":
        if spec[1] is None:
            return schema.dict
        keys = {}
        n = len(spec[1])
        # spec[2]: False = strict; True / "last" = ...: ... after the keys; "first" / "mid" = marker placed earlier
        if spec[2] == "first":
            keys[...] = ...
        for i, (key, opt, sub) in enumerate(spec[1]):
            if spec[2] == "mid" and i == (n + 1) // 2:
                keys[...] = ...
            keys[optional(key) if opt else key] = build(sub, hook, _ctr)
        if spec[2] and ... not in keys:
            keys[...] = ...
        return schema.dict(keys)
    if k == "any":
        if spec[1] is None:
            return schema.any
        return schema.any(*[build(a, hook, _ctr) for a in spec[1]])
    if k == "alias":
        return schema.alias(spec[1], build(spec[2], hook, _ctr))
    raise AssertionError("bad spec %r" % (k,))


def _lens_ok(n, lens):
    ln, mn, mx = lens
    if ln is not Nil and n != ln:
        return False
    if mn is not Nil and n < mn:
        return False
    if mx is not Nil and n > mx:
        return False
    return True


def conforms(spec, v):
    """The meaning of a schema in the words of property C02 (independent of d42's validator)."""
    k = spec[0]
    if k == "none":
        return v is None
    if k == "bool":
        return isinstance(v, bool) and (spec[1] is Nil or v == spec[1])
    if k == "int":
        if not isinstance(v, int):
            return False
        if spec[1] is not Nil and v != spec[1]:
            return False
        if spec[2] is not Nil and v < spec[2]:
            return False
        if spec[3] is not Nil and v > spec[3]:
            return False
        return True
    if k == "float":
        if not isinstance(v, float):
            return False
        if spec[1] is not Nil:
            if spec[4] is Nil:
                if not math.isclose(v, spec[1]):
                    return False
            else:
                if round(v * 10 ** spec[4]) != round(spec[1] * 10 ** spec[4]):
                    return False
        if spec[2] is not Nil and not (v >= spec[2]):     # "lies within min/max": a NaN lies within nothing
            return False
        if spec[3] is not Nil and not (v <= spec[3]):
            return False
        return True
    if k == "str":
        if not isinstance(v, str):
            return False
        if spec[1] is not Nil and v != spec[1]:
            return False
        if spec[5] is not Nil and re.search(spec[5], v) is None:
            return False
        if not _lens_ok(len(v), spec[2]):
            return False
        if spec[4] is not Nil and spec[4] not in v:
            return False
        if spec[3] is not Nil:
            for ch in v:
                if ch not in spec[3]:
                    return False
        return True
    if k == "bytes":
        return isinstance(v, bytes) and (spec[1] is Nil or v == spec[1])
    if k == "uuid4":
        return isinstance(v, UUID) and v.version == 4 and (spec[1] is Nil or v == spec[1])
    if k == "datetime":
        return isinstance(v, datetime) and (spec[1] is Nil or v == spec[1])
    if k == "date":
        return isinstance(v, date) and (spec[1] is Nil or v == spec[1])
    if k == "list":
        return isinstance(v, list) and _lens_ok(len(v), spec[2])
    if k == "list_t":
        if not isinstance(v, list) or not _lens_ok(len(v), spec[2]):
            return False
        for x in v:
            if not conforms(spec[1], x):
                return False
        return True
    if k == "list_e":
        if not isinstance(v, list) or not _lens_ok(len(v), spec[2]):
            return False
        els = spec[1]
        n = len(v)
        if len(els) > 2 and els[0] is ... and els[-1] is ...:       # contains
            body = els[1:-1]
            m = len(body)
            for i in range(0, n - m + 1):
                if _window(body, v, i):
                    return True
            return False
        if len(els) >= 2 and els[-1] is ...:                         # head
            body = els[:-1]
            return n >= len(body) and _window(body, v, 0)
        if len(els) >= 1 and els[0] is ...:                          # tail
            body = els[1:]
            return n >= len(body) and _window(body, v, n - len(body))
        return n == len(els) and _window(els, v, 0)
    if k == "dict":
        if not isinstance(v, dict):
            return False
        if spec[1] is None:
            return True
        declared = []
        for key, opt, sub in spec[1]:
            declared.append(key)
            if key in v:
                if not conforms(sub, v[key]):
                    return False
            elif not opt:
                return False
        if not spec[2]:
            for key in v:
                if key not in declared:
                    return False
        return True
    if k == "any":
        if spec[1] is None:
            return True
        for a in spec[1]:
            if conforms(a, v):
                return True
        return False
    if k == "alias":
        return conforms(spec[2], v)
    raise AssertionError("bad spec %r" % (k,))


def _window(body, v, start):
    for j in range(len(body)):
        if not conforms(body[j], v[start + j]):
            return False
    return True


def mklist(n, *items):
    """A real Python list holding the first n of items (n symbolic, 0 <= n <= len(items))."""
    out = []
    for i in range(len(items)):
        if n > i:
            out.append(items[i])
    return out


def verdicts(S, v):
    """(accepted by validate, accepted by ==) on the real code."""
    return (not validate(S, v).has_errors()), bool(S == v)


def mkdict(*entries):
    """A real dict with concrete keys; entry = (key, present?, value) with symbolic present/value."""
    out = {}
    for key, present, val in entries:
        if present:
            out[key] = val
    return out


_NO = object()


def pick(menu, i, default=_NO):
    """menu[i] via an explicit comparison chain (keeps a symbolic index exhaustible); out-of-range
    indices give `default`, or abandon the path when no default is given."""
    for j in range(len(menu)):
        if i == j:
            return menu[j]
    if default is _NO:
        raise IgnoreAttempt("menu index out of range")
    return default


# concrete alphabets for the harnesses that keep only the value symbolic (an implementation that builds a pattern,
# a table or a set from the alphabet then stays analysable): regex metacharacters, ranges-lookalikes, newline
ALPHA_MENU = ("ab", "09", "a-c", "^a", "]\\[", "a\n", ".", "$a", "")

UUIDS4 = (UUID("8a2f1d0c-5b7e-4c3a-9f10-2d4e6a8b0c1e"), UUID("00000000-0000-4000-8000-000000000000"))
UUID_OTHER = (UUID("6ba7b810-9dad-11d1-80b4-00c04fd430c8"),      # v1
              UUID("6fa459ea-ee8a-3ca4-894e-db77e160355e"),      # v3
              UUID("886313e1-3b8a-5372-9b90-0c9aee199e5d"),      # v5
              UUID(int=0))                                        # nil, version None
UUID_VALUES = UUIDS4 + UUID_OTHER + ("8a2f1d0c-5b7e-4c3a-9f10-2d4e6a8b0c1e", None, 4)
DATETIMES = (datetime(2020, 1, 2, 3, 4, 5), datetime(1999, 12, 31, 23, 59, 59, 999999))
DATES = (date(2020, 1, 2), date(1999, 12, 31))
DT_VALUES = DATETIMES + DATES + ("2020-01-02", None, 0)


# --------------------------------------------------------------------------- C03: error truth

_KIND_TYPE = {"none": type(None), "bool": bool, "int": int, "float": float, "str": str, "bytes": bytes,
              "list": list, "list_t": list, "list_e": list, "dict": dict, "uuid4": UUID,
              "datetime": datetime, "date": date}


def _strip_alias(spec):
    while spec is not None and spec[0] == "alias":
        spec = spec[2]
    return spec


def spec_at(spec, root, steps):
    """The spec node that governs the sub-value reached by `steps`, or None when the position is
    governed by a window/alternative choice (contains-lists, any) and hence not unique."""
    cur, val = _strip_alias(spec), root
    for step in steps:
        k = cur[0]
        nxt = None
        if k == "dict" and cur[1] is not None:
            for key, opt, sub in cur[1]:
                if key == step:
                    nxt = sub
        elif k == "list_t":
            nxt = cur[1]
        elif k == "list_e":
            els = cur[1]
            if len(els) > 2 and els[0] is ... and els[-1] is ...:
                nxt = None
            elif len(els) >= 2 and els[-1] is ...:
                body = els[:-1]
                nxt = body[step] if 0 <= step < len(body) else None
            elif len(els) >= 1 and els[0] is ...:
                body = els[1:]
                j = step - max(0, len(val) - len(body))
                nxt = body[j] if 0 <= j < len(body) else None
            else:
                nxt = els[step] if 0 <= step < len(els) else None
        if nxt is None:
            return None
        cur = _strip_alias(nxt)
        val = val[step]
    return cur


def _same(a, b):
    """the error's field is the declared parameter (same object, or an equal copy of the same type)"""
    return a is b or (b is not Nil and type(a) is type(b) and a == b)


def error_problem(spec, root, e, fmt=None):
    """'' when error `e` (from validating `root` against the schema of `spec`) is true, located
    and rendered as property C03 demands; otherwise a short description of what is wrong."""
    name = type(e).__name__
    steps = path_items(e.path)
    try:
        sub = walk(root, e.path)
    except (KeyError, IndexError, TypeError):
        return name + ": path does not resolve"
    if sub is not e.actual_value and not (type(sub) is type(e.actual_value) and sub == e.actual_value):
        return name + ": path does not reach the reported value"
    node = spec_at(spec, root, steps)
    lens = node[2] if node is not None and node[0] in ("list", "list_t", "list_e") else \
        (node[2] if node is not None and node[0] == "str" else None)
    # ---- the stated fact, from the error's own fields
    if isinstance(e, VE.TypeValidationError):
        if isinstance(sub, e.expected_type):
            return name + ": value has the expected type"
        if node is not None and node[0] in _KIND_TYPE and e.expected_type is not _KIND_TYPE[node[0]]:
            return name + ": expected_type is not the declared type"
    elif isinstance(e, VE.ValueValidationError):
        if node is not None and node[0] == "float":
            if conforms(("float", node[1], Nil, Nil, node[4]), sub):
                return name + ": float value matches"
        elif not (sub != e.expected_value):
            return name + ": values are equal"
        if node is not None and node[0] in ("bool", "int", "float", "str", "bytes", "uuid4", "datetime", "date"):
            if node[1] is Nil or not _same(e.expected_value, node[1]):
                return name + ": expected_value is not the declared value"
    elif isinstance(e, VE.MinValueValidationError):
        if sub >= e.min_value:          # true of a NaN as well: it is not within the bound
            return name + ": value is not below min"
        if node is not None and (node[0] not in ("int", "float") or not _same(e.min_value, node[2])):
            return name + ": min_value is not the declared min"
    elif isinstance(e, VE.MaxValueValidationError):
        if sub <= e.max_value:
            return name + ": value is not above max"
        if node is not None and (node[0] not in ("int", "float") or not _same(e.max_value, node[3])):
            return name + ": max_value is not the declared max"
    elif isinstance(e, VE.LengthValidationError):
        if not (len(sub) != e.length):
            return name + ": length is as declared"
        if lens is not None and not _same(e.length, lens[0]):
            return name + ": length is not the declared len"
    elif isinstance(e, VE.MinLengthValidationError):
        if not (len(sub) < e.min_length):
            return name + ": length is not below min"
        if lens is not None and not _same(e.min_length, lens[1]):
            return name + ": min_length is not the declared min len"
    elif isinstance(e, VE.MaxLengthValidationError):
        if not (len(sub) > e.max_length):
            return name + ": length is not above max"
        if lens is not None and not _same(e.max_length, lens[2]):
            return name + ": max_length is not the declared max len"
    elif isinstance(e, VE.AlphabetValidationError):
        bad = False
        for ch in sub:
            if ch not in e.alphabet:
                bad = True
        if not bad:
            return name + ": every character is in the alphabet"
        if node is not None and (node[0] != "str" or not _same(e.alphabet, node[3])):
            return name + ": alphabet is not the declared alphabet"
    elif isinstance(e, VE.SubstrValidationError):
        if e.substr in sub:
            return name + ": substring is present"
        if node is not None and (node[0] != "str" or not _same(e.substr, node[4])):
            return name + ": substr is not the declared substring"
    elif isinstance(e, VE.RegexValidationError):
        if re.search(e.pattern, sub) is not None:
            return name + ": pattern matches"
        if node is not None and (node[0] != "str" or e.pattern != node[5]):
            return name + ": pattern is not the declared pattern"
    elif isinstance(e, VE.MissingElementValidationError):
        if not (isinstance(sub, list) and e.index >= len(sub) and e.index >= 0):
            return name + ": element exists"
    elif isinstance(e, VE.ExtraElementValidationError):
        if not (isinstance(sub, list) and 0 <= e.index < len(sub)):
            return name + ": no such element"
        if node is not None and node[0] == "list_e" and not (e.index >= len(node[1])):
            return name + ": index is a declared position"
    elif isinstance(e, VE.MissingKeyValidationError):
        if not isinstance(sub, dict) or e.missing_key in sub:
            return name + ": key is present"
        if node is not None and node[0] == "dict" and node[1] is not None:
            found = False
            for key, opt, sp in node[1]:
                if key == e.missing_key and not opt:
                    found = True
            if not found:
                return name + ": key is not a required key"
    elif isinstance(e, VE.ExtraKeyValidationError):
        if not isinstance(sub, dict) or e.extra_key not in sub:
            return name + ": key is absent"
        if node is not None and node[0] == "dict" and node[1] is not None:
            if node[2]:
                return name + ": dict is relaxed"
            for key, opt, sp in node[1]:
                if key == e.extra_key:
                    return name + ": key is declared"
    elif isinstance(e, VE.SchemaMismatchValidationError):
        for alt in e.expected_schemas:
            if not validate(alt, sub).has_errors():
                return name + ": an alternative accepts the value"
    elif isinstance(e, VE.InvalidUUIDVersionValidationError):
        if not (isinstance(sub, UUID) and sub.version == e.actual_version
                and e.actual_version != e.expected_version and e.expected_version == 4):
            return name + ": version fields are wrong"
    else:
        return name + ": unknown error kind"
    # a leaf-level error implies the governing node rejects the sub-value
    if node is not None and conforms(node, sub):
        return name + ": the sub-value conforms to the schema at that position"
    # ---- rendering
    if fmt is not None:
        msg = e.format(fmt)
        if not isinstance(msg, str) or len(msg) == 0:
            return name + ": empty message"
        rp = render_path(e.path)
        if isinstance(e, VE.MissingKeyValidationError):
            want = rp + "[%r]" % (e.missing_key,)
        elif isinstance(e, VE.MissingElementValidationError):
            want = rp + "[%r]" % (e.index,)
        elif len(steps) > 0:
            want = rp
        else:
            want = ""
        if want not in msg:
            return name + ": message does not name the path"
    return ""


_FMT = Formatter()


def errors_problem(spec, root, result):
    for e in result.get_errors():
        why = error_problem(spec, root, e, _FMT)
        if why:
            return why
    return ""


_SUBST_VALIDATOR = SubstitutorValidator()


def validate_subst(S, v):
    """The validator used inside substitution (a Validator subclass)."""
    return S.__accept__(_SUBST_VALIDATOR, value=v)


# --------------------------------------------------------------------------- C01: generation

SMALL_DEFAULTS = {"STR_LEN_MAX": 3, "LIST_LEN_MAX": 2, "BYTES_LEN_MAX": 2}


class gen_env:
    """with gen_env(ints, chars, floats, small=True) as t: v = fake(S)
    Installs the TapeRandom stub and (small=True) scales the generator's default length caps down
    to SMALL_DEFAULTS so that loops over drawn lengths stay short.  Everything is restored."""

    def __init__(self, ints=(), chars=(), floats=(), small=True, first_char=False, index_small=False):
        self.t = TapeRandom(ints, chars, floats)
        self.t.first_char = first_char
        self.t.index_small = index_small
        self.small = small
        self.saved = {}

    def __enter__(self):
        _RANDOM_MOD.random = self.t
        if self.small:
            for k, v in SMALL_DEFAULTS.items():
                self.saved[k] = getattr(_GEN_MOD, k)
                setattr(_GEN_MOD, k, v)
        return self.t

    def __exit__(self, *exc):
        _RANDOM_MOD.random = _REAL_RANDOM
        for k, v in self.saved.items():
            setattr(_GEN_MOD, k, v)
        return False


def _len_window(lens):
    """(lo, hi) admitted by a len form; hi None = unbounded. None if empty."""
    ln, mn, mx = lens
    if ln is not Nil:
        if ln < 0:
            return None
        return (ln, ln)
    lo = 0
    if mn is not Nil and mn > 0:
        lo = mn
    if mx is not Nil:
        if mx < lo:
            return None
        return (lo, mx)
    return (lo, None)


def satisfiable(spec):
    """Conservative SUFFICIENT condition for 'admits at least one conforming value' (and for every
    alternative / element the generator may pick).  Doubtful cases count as unsatisfiable, which can
    only make the C01/C04 checks quieter."""
    k = spec[0]
    if k in ("none", "bool", "bytes", "uuid4", "datetime", "date"):
        return True
    if k == "int":
        if spec[1] is not Nil:
            return True
        if spec[2] is not Nil and spec[3] is not Nil:
            return spec[2] <= spec[3]
        return True
    if k == "float":
        for p in (spec[1], spec[2], spec[3]):
            if p is not Nil and p != p:
                return False
        if spec[1] is not Nil:
            return True
        if spec[2] is not Nil and spec[3] is not Nil:
            return spec[2] <= spec[3]
        return True
    if k == "str":
        if spec[1] is not Nil:
            return True
        if spec[5] is not Nil:
            return True          # patterns come from a menu of satisfiable patterns
        w = _len_window(spec[2])
        if w is None:
            return False
        lo, hi = w
        sub = spec[4] if spec[4] is not Nil else ""
        al = spec[3]
        if al is not Nil:
            for ch in sub:
                if ch not in al:
                    return False
        m = lo if lo > len(sub) else len(sub)
        if hi is not None and m > hi:
            return False
        if m > len(sub) and al is not Nil and len(al) == 0:
            return False
        return True
    if k == "list":
        return _len_window(spec[2]) is not None
    if k == "list_t":
        return _len_window(spec[2]) is not None and satisfiable(spec[1])
    if k == "list_e":
        w = _len_window(spec[2])
        if w is None:
            return False
        n = 0
        for e in spec[1]:
            if e is not ...:
                n += 1
                if not satisfiable(e):
                    return False
        if n == len(spec[1]):
            return w[0] <= n and (w[1] is None or n <= w[1])
        return w[1] is None or n <= w[1]
    if k == "dict":
        if spec[1] is None:
            return True
        for key, opt, sub in spec[1]:
            if not satisfiable(sub):
                return False
        return True
    if k == "any":
        if spec[1] is None:
            return True
        for a in spec[1]:
            if not satisfiable(a):
                return False
        return True
    if k == "alias":
        return satisfiable(spec[2])
    raise AssertionError("bad spec")


def draw_tag(t):
    n = t.n_int
    if n == 0:
        return "nodraw"
    if t.at_high == n:
        return "allhigh"
    if t.at_low == n:
        return "alllow"
    return "mixed"


# --------------------------------------------------------------------------- substitution (C04/C05/C12)

def agrees(w, v):
    """w carries the substituted data v at the substituted positions (C04)."""
    if isinstance(v, dict):
        if not isinstance(w, dict):
            return False
        for k in v:
            if k not in w or not agrees(w[k], v[k]):
                return False
        return True
    if isinstance(v, list):
        if not isinstance(w, list) or len(w) != len(v):
            return False
        for i in range(len(v)):
            if not agrees(w[i], v[i]):
                return False
        return True
    if isinstance(v, float):
        return isinstance(w, float) and (w == v or isclose_py(w, v))
    return w == v


class Opaque:
    def __repr__(self):
        return "<opaque>"


ZOO_UNCONVERTIBLE = (Opaque(), (1, 2), {1}, frozenset([1]), Decimal("1.5"), Fraction(1, 3), bytearray(b"x"),
                     UUID("6ba7b810-9dad-11d1-80b4-00c04fd430c8"), 1j, int)


def keeps_unspecified(S, R, v):
    """Dict keys absent from v keep their schema and optionality in R = S % v."""
    if not isinstance(v, dict) or not isinstance(S, DictSchema) or S.props.keys is Nil:
        return True
    if len(S.props.keys) == 1 and ... in S.props.keys:
        return True
    for k, (sub, opt) in S.props.keys.items():
        if k in v:
            continue
        if k not in R.props.keys:
            return False
        rsub, ropt = R.props.keys[k]
        if ropt != opt or (rsub is not sub and rsub != sub):
            return False
    return True


def place3(j, z, x, y):
    """[z, x, y], [x, z, y] or [x, y, z] for j = 0, 1, 2 (an unconvertible member before / inside / after the window)."""
    if j == 0:
        return [z, x, y]
    if j == 1:
        return [x, z, y]
    return [x, y, z]


def mkdictlist(j, x, z):
    """[x, z] if j == 0 else [z, x]  (places an unconvertible member before / after the window)."""
    if j == 0:
        return [x, z]
    return [z, x]


# --------------------------------------------------------------------------- C08: hostile values

class StrSub(str):
    pass


class IntSub(int):
    pass


class ListSub(list):
    pass


class DictSub(dict):
    pass


def _a_function():
    return None


ZOO_HOSTILE = (
    Decimal("1.5"), Fraction(1, 3), (1, 2), (), {1, 2}, frozenset(), bytearray(b"ab"),
    StrSub("ab"), IntSub(3), ListSub([1]), DictSub({"a": 1}),
    UUID("6ba7b810-9dad-11d1-80b4-00c04fd430c8"), UUID("6fa459ea-ee8a-3ca4-894e-db77e160355e"),
    UUID("886313e1-3b8a-5372-9b90-0c9aee199e5d"), UUID(int=0), UUIDS4[0],
    {(1, 2): 0}, {None: 1}, {1: "x", "1": "y"}, Opaque(), Opaque, _a_function,
    float("inf"), float("-inf"), float("nan"), 10 ** 400, -(10 ** 400), 1j, range(3),
    DATETIMES[0], DATES[0], b"\xff", "", [], {}, [[]], None, True, 0, -0.0,
    {...: 1}, {"a": 1, ...: 2}, {float("nan"): 1, float("nan"): 2}, ..., {None: 1, "a": 2, (1,): 3}, [...], NotImplemented,
)


ZOO_HOSTILE_Q = (Decimal("1.5"), (1, 2), {1, 2}, bytearray(b"ab"), StrSub("ab"), IntSub(3), ListSub([1]),
                 DictSub({"a": 1}), UUID("6ba7b810-9dad-11d1-80b4-00c04fd430c8"), UUID(int=0), {(1, 2): 0},
                 Opaque(), float("inf"), float("nan"), 10 ** 400, {1: "x", "1": "y"}, {None: 1, "a": 2, (1,): 3},
                 {...: 1}, {"a": 1, ...: 2}, {float("nan"): 1, float("nan"): 2}, ...)


def _count_nodes(val):
    n = 1
    if isinstance(val, list):
        for x in val:
            n += _count_nodes(x)
    elif isinstance(val, dict):
        for k in val:
            n += _count_nodes(val[k])
    return n


def inject(val, i, z):
    """Copy of the (concrete-shaped) container tree `val` whose i-th node in pre-order is replaced
    by z; i == 0 replaces the root.  Abandons the path when i is not a node index."""
    out, left = _inject(val, i, z)
    if left >= 0:
        raise IgnoreAttempt("no such position")
    return out


def _inject(val, i, z):
    if i == 0:
        return z, -1
    i = i - 1
    if isinstance(val, list):
        out = []
        done = False
        for x in val:
            if done:
                out.append(x)
            else:
                y, i = _inject(x, i, z)
                out.append(y)
                if i < 0:
                    done = True
        return out, (-1 if done else i)
    if isinstance(val, dict):
        out = {}
        done = False
        for k in val:
            if done:
                out[k] = val[k]
            else:
                y, i = _inject(val[k], i, z)
                out[k] = y
                if i < 0:
                    done = True
        return out, (-1 if done else i)
    return val, i


def _carries(text, msgs):
    """every error's rendered message occurs in text, as many times as there are errors rendering to it
    (independent of bullets / headers, so a change of the report layout is not an alarm)"""
    for m in set(msgs):
        if text.count(m) < msgs.count(m):
            return False
    return True


def total_problem(S, val):
    """'' when validation of val is total in the sense of C08."""
    res = validate(S, val)
    errs = res.get_errors()
    for e in errs:
        msg = e.format(_FMT)
        if not isinstance(msg, str) or len(msg) == 0:
            return "empty message for " + type(e).__name__
    msgs = [e.format(_FMT) for e in errs]
    lines = format_result(res)
    if len(errs) == 0:
        if lines != []:
            return "format_result not empty for a clean result"
    elif not _carries("\n".join(lines), msgs):
        return "format_result does not carry one entry per error"
    try:
        r = validate_or_fail(S, val)
    except ValidationException as ex:
        if len(errs) == 0:
            return "validate_or_fail raised without errors"
        if not _carries(str(ex), msgs):
            return "validate_or_fail message does not carry one line per error"
        return ""
    if len(errs) != 0:
        return "validate_or_fail returned although there are errors"
    if r is not True:
        return "validate_or_fail did not return True"
    return ""


# --------------------------------------------------------------------------- C10: declarations

ARG_MENU = (..., Nil, [], {}, schema.int, Opaque(), (1,), b"x")
REGEX_MENU = ("a", "^b+$", "[0-9]", "(", "", "a{2,1}")
STRVAL_MENU = ("", "a", "ab", "b\n", "0")
LIST_MENU = (
    ([], []), ([schema.int(1)], [1]), ([schema.int(1), schema.str("a")], [1, "a"]),
    ([..., schema.int(1)], None), ([schema.int(1), ...], None), ([..., schema.int(1), ...], None),
    ([...], None), ([..., ...], None), ([schema.int, 5], None), ([schema.int, ..., schema.int], None),
    (schema.int, None), (schema.list([schema.none]), None), (5, None), (None, None), ({}, None), (..., None),
    ((schema.int,), None),
)
DICT_MENU = ({}, {"a": schema.int}, {optional("a"): schema.int(1), ...: ...}, {...: schema.int}, {"a": ...},
             {"a": 5}, {optional("a"): 5}, {1: schema.none, (1, 2): schema.none}, [], None, 5, schema.int, ...)
ANY_MENU = ((schema.int,), (schema.int, schema.str), (5,), (schema.any(schema.int), schema.none), (schema.int, None),
            (...,), (schema.any,), ([schema.int],))


def props_fp(s):
    """Fingerprint of a schema's registry: key set and identity of every value."""
    with notrace():
        reg = s.props._registry
        return [(k, id(reg[k])) for k in reg]


def arg_of(sym, m, menu=ARG_MENU):
    """The m-th menu member when m is a menu index, else the symbolic scalar (strings/bytes <= 2)."""
    for j in range(len(menu)):
        if m == j:
            return menu[j]
    if isinstance(sym, (str, bytes)) and len(sym) > 2:
        raise IgnoreAttempt("string bound")
    return sym


def bi(b, f):
    """An int-typed argument: the symbolic int b, or a bool (bools are ints) when f is 1 / 2."""
    if f == 1:
        return True
    if f == 2:
        return False
    return b


# --------------------------------------------------------------------------- C14: from_native

class UnexpectedDraw(Exception):
    pass


class NoRandom:
    """random stub for schemas that must generate without drawing."""

    def randint(self, a, b):
        raise UnexpectedDraw("randint")

    def choice(self, seq):
        raise UnexpectedDraw("choice")

    def uniform(self, a, b):
        raise UnexpectedDraw("uniform")


def fake_nodraw(S):
    _RANDOM_MOD.random = NoRandom()
    try:
        return fake(S)
    finally:
        _RANDOM_MOD.random = _REAL_RANDOM


def same(w, v, loose=False):
    """Type-aware deep equality of plain values: kind, content, length, key set, members.
    loose=True identifies True/False with 1/0 (Python's own identification)."""
    if v is None:
        return w is None
    if isinstance(v, bool):
        if loose:
            return isinstance(w, int) and w == v
        return isinstance(w, bool) and w == v
    if isinstance(v, int):
        if loose:
            return isinstance(w, int) and w == v
        return isinstance(w, int) and not isinstance(w, bool) and w == v
    if isinstance(v, float):
        return isinstance(w, float) and (w == v or isclose_py(w, v))
    if isinstance(v, str):
        return isinstance(w, str) and w == v
    if isinstance(v, bytes):
        return isinstance(w, bytes) and w == v
    if isinstance(v, list):
        if not isinstance(w, list) or len(w) != len(v):
            return False
        for i in range(len(v)):
            if not same(w[i], v[i], loose):
                return False
        return True
    if isinstance(v, dict):
        if not isinstance(w, dict) or len(w) != len(v):
            return False
        for k in v:
            if k not in w or not same(w[k], v[k], loose):
                return False
        return True
    if isinstance(v, UUID):
        return isinstance(w, UUID) and w == v
    if isinstance(v, datetime):
        return isinstance(w, datetime) and w == v
    if isinstance(v, date):
        return isinstance(w, date) and w == v
    raise AssertionError("not a plain value")


def native_problem(v, w):
    """'' when from_native(v) denotes exactly v (C14), judged on the probe w."""
    S = from_native(v)
    if not ok_validate(S, v):
        return "schema rejects its own value"
    g = fake_nodraw(S)
    if not same(g, v):
        return "generated value differs"
    strict = same(w, v)
    if same(w, v, True) and not strict:
        raise IgnoreAttempt("pair differs only by the bool/int identification")
    if ok_validate(S, w) != strict:
        return "accepts a different value" if not strict else "rejects an equal value"
    return ""


# --------------------------------------------------------------------------- C15: equality

def eq_int(hv, x, hmn, mn, hmx, mx):
    s = schema.int
    if hv:
        s = s(x)
    if hmn:
        s = s.min(mn)
    if hmx:
        s = s.max(mx)
    return s


def eq_float(hv, x, hmn, mn, hmx, mx, hp, p):
    s = schema.float
    if hv:
        s = s(x)
    if hmn:
        s = s.min(mn)
    if hmx:
        s = s.max(mx)
    if hp:
        s = s.precision(p)
    return s


def eq_str(lf, n, m, ha, al, hs, sub):
    s = schema.str
    if lf == 1:
        s = s.len(n)
    elif lf == 2:
        s = s.len(n, ...)
    elif lf == 3:
        s = s.len(..., m)
    elif lf == 4:
        s = s.len(n, m)
    if ha:
        s = s.alphabet(al)
    if hs:
        s = s.contains(sub)
    return s


def eq_dict(p, hb, ob, rel, typed):
    if not typed:
        return schema.dict
    keys = {"a": schema.int.min(p)}
    if hb:
        keys[optional("b") if ob else "b"] = schema.none
    if rel:
        keys[...] = ...
    return schema.dict(keys)


def eq_dict_pos(p, hb, ob, pos):
    """like eq_dict, with the `...: ...` entry at a chosen position (0 none, 1 first, 2 after 'a', 3 last): dict
    equality ignores the order of the declared keys, so schemas differing only in `pos` 1..3 are equal."""
    items = [("a", schema.int.min(p))]
    if hb:
        items.append((optional("b") if ob else "b", schema.none))
    if pos == 1:
        items.insert(0, (..., ...))
    elif pos == 2:
        items.insert(1, (..., ...))
    elif pos == 3:
        items.append((..., ...))
    return schema.dict(dict(items))


def eq_list(form, p, hl, n):
    e = schema.int.min(p)
    if form == 0:
        s = schema.list
    elif form == 1:
        s = schema.list(e)
    elif form == 2:
        s = schema.list([e])
    elif form == 3:
        s = schema.list([e, ...])
    elif form == 4:
        s = schema.list([..., e])
    elif form == 5:
        s = schema.list([..., e, ...])
    elif form == 6:
        s = schema.list([e, e])
    elif form == 7:
        s = schema.list([])
    else:
        raise IgnoreAttempt("form")
    if hl:
        s = s.len(n)
    return s


def eq_any(form, p):
    a = schema.int.min(p)
    if form == 0:
        return schema.any
    if form == 1:
        return schema.any(a)
    if form == 2:
        return schema.any(a, schema.none)
    if form == 3:
        return schema.any(schema.none, a)
    if form == 4:
        return schema.any(a, schema.none, schema.str)
    raise IgnoreAttempt("form")


def eq_misc(i):
    return pick((schema.none, schema.bool, schema.bool(True), schema.int, schema.float, schema.str, schema.bytes,
                 schema.list, schema.dict, schema.any, schema.uuid4, schema.datetime, schema.date,
                 schema.alias("T", schema.int), schema.alias("T", schema.any), schema.alias("U", schema.int)), i)


def eq_pair_problem(a, b, v):
    """Clauses of C15 that involve two schemas and a probe value."""
    ab = (a == b)
    if not isinstance(ab, bool):
        return "== did not return a bool"
    if ab != (b == a):
        return "== is not symmetric"
    if (a != b) != (not ab):
        return "!= is not the negation of =="
    if (b != a) != (not ab):
        return "!= is not the negation of == (reversed)"
    if not (a == a) or (a != a):
        return "== is not reflexive"
    if ab and ok_validate(a, v) != ok_validate(b, v):
        return "equal schemas give different verdicts"
    return ""


def eq_value_problem(a, v):
    va = ok_validate(a, v)
    if (a == v) != va or (a != v) != (not va):
        return "schema == value disagrees with validate"
    return ""


# --------------------------------------------------------------------------- C16: forwarding custom type

from d42.custom_type import CustomSchema  # noqa: E402
from d42.declaration import Props as _Props  # noqa: E402


class WrapProps(_Props):
    @property
    def inner(self):
        return self.get("inner")


class Wrap(CustomSchema[WrapProps]):
    """A user-defined type that forwards every hook to a built-in schema."""

    @classmethod
    def of(cls, inner):
        return cls(WrapProps().update(inner=inner))

    def __validate__(self, visitor, *, value=Nil, path=Nil, **kwargs):
        return self.props.inner.__accept__(visitor, value=value, path=path, **kwargs)

    def __generate__(self, visitor, **kwargs):
        return self.props.inner.__accept__(visitor, **kwargs)

    def __represent__(self, visitor, *, indent=0, **kwargs):
        return self.props.inner.__accept__(visitor, indent=indent, **kwargs)

    def __substitute__(self, visitor, *, value=Nil, **kwargs):
        return self.__class__(self.props.update(inner=self.props.inner.__accept__(visitor, value=value, **kwargs)))


def wrap_hook(flags):
    def hook(s, i):
        if i < len(flags) and flags[i]:
            return Wrap.of(s)
        return s
    return hook


def err_fingerprint(res):
    out = []
    for e in res.get_errors():
        extra = []
        for k in sorted(e.__dict__):
            if k in ("path", "actual_value", "expected_schemas"):
                continue
            extra.append((k, id(e.__dict__[k]) if not isinstance(e.__dict__[k], (int, str, type)) else e.__dict__[k]))
        out.append((type(e).__name__, tuple(path_items(e.path)), id(e.actual_value), tuple(extra)))
    return out


from d42.representation import Representor as _Representor  # noqa: E402
from d42.validation import Validator as _Validator  # noqa: E402
_PathHolder = PathHolder


class _PathHolder2(_PathHolder):
    pass


def custom_problem(spec, flags, val, w):
    """'' when the tree with forwarding custom types at the flagged nodes validates, prints and substitutes
    exactly like the plain tree (C16)."""
    T = build(spec)
    Tw = build(spec, wrap_hook(flags))
    if err_fingerprint(validate(T, val)) != err_fingerprint(validate(Tw, val)):
        return "validation errors differ"
    if represent(T) != represent(Tw):
        return "printed form differs"
    # a second, differently configured instance of a visitor class the tree has already been visited with
    r2 = _Representor(name="s", indent=2)
    if T.__accept__(r2) != Tw.__accept__(r2):
        return "printed form differs for a second Representor instance"
    v2 = _Validator(path_holder_factory=_PathHolder2)
    e1, e2 = T.__accept__(v2, value=val), Tw.__accept__(v2, value=val)
    if err_fingerprint(e1) != err_fingerprint(e2) or [type(x.path) for x in e1.get_errors()] != [type(x.path) for x in e2.get_errors()]:
        return "validation errors differ for a second Validator instance"
    try:
        R = substitute(T, val)
        r1 = True
    except SubstitutionError:
        r1 = False
    try:
        Rw = substitute(Tw, val)
        r2 = True
    except SubstitutionError:
        r2 = False
    if r1 != r2:
        return "substitution succeeds for one and fails for the other"
    if r1:
        if represent(R) != represent(Rw):
            return "substitution results print differently"
        if ok_validate(R, w) != ok_validate(Rw, w):
            return "substitution results accept different values"
    return ""


def custom_gen_problem(spec, flags, ints, chars):
    T = build(spec)
    Tw = build(spec, wrap_hook(flags))
    g1 = g2 = e1 = e2 = None
    with gen_env(ints, chars, ()) as t:
        try:
            g1 = fake(T)
        except (ValueError, IndexError) as ex:      # unsatisfiable schema: the generator may refuse
            e1 = type(ex)
    with gen_env(ints, chars, ()) as t:
        try:
            g2 = fake(Tw)
        except (ValueError, IndexError) as ex:
            e2 = type(ex)
    if e1 is not e2:
        return "generation raises for one and not for the other"
    if e1 is None and ok_validate(T, g1) and not ok_validate(T, g2):
        return "value generated through the custom type does not conform"
    return ""


# --------------------------------------------------------------------------- C07: immutability / purity
import collections  # noqa: E402

import d42.representation as _REP_PKG  # noqa: E402
import d42.substitution as _SUB_PKG  # noqa: E402
import d42.validation as _VAL_PKG  # noqa: E402

_SINGLETONS = (
    ("validation._validator", _VAL_PKG._validator), ("validation._formatter", _VAL_PKG._formatter),
    ("generation._generator", d42.generation._generator), ("generation._random", d42.generation._random),
    ("generation._generator._regex_generator", d42.generation._generator._regex_generator),
    ("representation._representor", _REP_PKG._representor), ("substitution._substitutor", _SUB_PKG._substitutor),
    ("substitution._substitutor._validator", _SUB_PKG._substitutor._validator),
    ("substitution._substitutor._formatter", _SUB_PKG._substitutor._formatter),
)


_PRISTINE = [(obj, {k: (v, dict(v) if isinstance(v, dict) else None) for k, v in obj.__dict__.items()}) for _n, obj in _SINGLETONS]


def reset_singletons():
    """Put d42's module-level visitor objects back into their import-time state, IN PLACE (the same dict objects keep
    their identity, so sharing between objects - intended or not - is preserved).  CrossHair re-executes the harness
    once per path inside one process; state that a (mutated) library leaks into these objects would otherwise make
    paths irreproducible (NotDeterministic) instead of yielding a clean counterexample."""
    for obj, snap in _PRISTINE:
        for k in list(obj.__dict__):
            if k not in snap:
                del obj.__dict__[k]
        for k, (v, content) in snap.items():
            obj.__dict__[k] = v
            if content is not None:
                v.clear()
                v.update(content)


_MODULE_STATE = []
for _name, _mod in list(sys.modules.items()):
    if _name == "d42" or _name.startswith("d42."):
        for _k, _v in list(_mod.__dict__.items()):
            if isinstance(_v, (dict, list, set)) and not _k.startswith("__"):
                _MODULE_STATE.append((_mod, _k, _v, type(_v)(_v)))


def reset_module_state():
    """Restore every module-level dict/list/set of the d42 package to its import-time contents, clear every functools
    cache found there, and reset the visitor singletons.  Makes each explored path start from the pristine library
    state, so that a counterexample caused by state a (mutated) library keeps between calls is self-contained."""
    for mod, k, obj, snap in _MODULE_STATE:
        if mod.__dict__.get(k) is not obj:
            mod.__dict__[k] = obj
        if isinstance(obj, dict):
            obj.clear()
            obj.update(snap)
        elif isinstance(obj, list):
            obj[:] = snap
        else:
            obj.clear()
            obj.update(snap)
    for name, mod in list(sys.modules.items()):
        if name == "d42" or name.startswith("d42."):
            for v in list(mod.__dict__.values()):
                cc = getattr(v, "cache_clear", None)
                if callable(cc):
                    cc()
    reset_singletons()


def deep_fp(x, depth=0):
    """Structural fingerprint with identity of leaves: equal before/after <=> nothing reachable was mutated."""
    if depth > 12:
        return ("deep",)
    if isinstance(x, Schema):
        reg = x.props._registry
        return ("schema", type(x).__name__, id(x), [(k, deep_fp(reg[k], depth + 1)) for k in reg])
    if isinstance(x, (list, tuple)):
        return (type(x).__name__, id(x), [deep_fp(y, depth + 1) for y in x])
    if isinstance(x, dict):
        return (type(x).__name__, id(x), [(deep_fp(k, depth + 1), deep_fp(x[k], depth + 1)) for k in x])
    if isinstance(x, (set, frozenset)):
        return (type(x).__name__, id(x), len(x))
    if isinstance(x, optional):
        return ("optional", deep_fp(x.key, depth + 1))
    return ("leaf", id(x))


def singletons_fp():
    out = []
    for name, obj in _SINGLETONS:
        dd = obj.__dict__
        out.append((name, id(obj), [(k, id(dd[k]), deep_fp(dd[k]) if isinstance(dd[k], (dict, list)) else None) for k in dd]))
    return out


class Frozen:
    """with Frozen(obj1, obj2, ...) as fz: ...; fz.problem() == '' iff the declared content (registry keys, nested
    schemas, containers, identity of every leaf) reachable from the objects is unchanged.  Internal bookkeeping a library
    may legitimately keep (memoised text, hashes, visitor-side caches) is deliberately NOT part of the fingerprint - state
    that changes *behaviour* is the business of the history / determinism harnesses."""

    def __init__(self, *objs):
        self.objs = objs

    def __enter__(self):
        with notrace():     # pure bookkeeping over concrete structure and object identities
            self.before = [deep_fp(o) for o in self.objs]
        return self

    def __exit__(self, *exc):
        return False

    def problem(self):
        with notrace():
            for i, o in enumerate(self.objs):
                if deep_fp(o) != self.before[i]:
                    return "object %d of the pool/arguments was mutated" % i
        return ""


def pool(p, n, al, x, rel):
    """A shared pool of schemas with symbolic parameters."""
    A = schema.dict({"a": schema.int.min(p), optional("b"): schema.list(schema.str.len(n, ...)), **({...: ...} if rel else {})})
    B = schema.list([schema.int(x), ...])
    C = schema.any(A, schema.none)
    D = schema.str.alphabet(al).len(..., n)
    E = schema.alias("T", schema.list(schema.int.max(p)).len(..., n))
    return A, B, C, D, E


def mutate(c, sel, item):
    """One solver-chosen in-place mutation of a caller-owned list or dict."""
    if isinstance(c, list):
        if sel == 0:
            c.append(item)
        elif sel == 1:
            if len(c) > 0:
                c.pop()
        elif sel == 2:
            if len(c) > 0:
                c[0] = item
        elif sel == 3:
            c.clear()
        elif sel == 4:
            c.insert(0, item)
        else:
            raise IgnoreAttempt("sel")
    else:
        if sel == 0:
            c["zz"] = item
        elif sel == 1:
            if len(c) > 0:
                c.pop(next(iter(c)))
        elif sel == 2:
            if len(c) > 0:
                c[next(iter(c))] = item
        elif sel == 3:
            c.clear()
        else:
            raise IgnoreAttempt("sel")


# --------------------------------------------------------------------------- C06: repr round trip
import datetime as _datetime_module  # noqa: E402

REPR_ENV = {"schema": schema, "optional": optional, "UUID": UUID, "datetime": _datetime_module}


def roundtrip_problem(s):
    t = represent(s)
    if not isinstance(t, str) or t != represent(s) or t != repr(s):
        return "representation is not deterministic / repr differs from represent"
    try:
        s2 = eval(t, dict(REPR_ENV))
    except Exception as ex:
        return "text does not evaluate: %s" % type(ex).__name__
    if not isinstance(s2, Schema):
        return "text does not evaluate to a schema"
    if not (s2 == s) or not (s == s2) or (s2 != s):
        return "rebuilt schema is not equal to the original"
    if represent(s2) != t:
        return "rebuilt schema prints differently"
    return ""


def opt_apply(s, method, arg):
    return s if arg is Nil else getattr(s, method)(arg)


def len_apply(s, lf, n, m):
    if lf == 0:
        return s
    if lf == 1:
        return s.len(n)
    if lf == 2:
        return s.len(n, ...)
    if lf == 3:
        return s.len(..., m)
    if lf == 4:
        return s.len(n, m)
    raise IgnoreAttempt("lf")


R_INT = (Nil, -1, 0, 2, 10 ** 20)
R_FLOATV = (Nil, 1.5, -0.0, 1e-07, 1e22)
R_FMIN = (Nil, -1.5, 0.0)
R_FMAX = (Nil, 0.0, 2.5, 1e300)
R_PREC = (Nil, 1, 15)
R_STRV = (Nil, "", "a'", "\n", 'q"\\', "é ")
R_ALPHA = (Nil, "", "ab'", "\\")
R_SUB = (Nil, "", "a", "'")
R_PAT = (Nil, r"\d+", "a'b", "^$")
R_N = (0, 1, 2, 3)
R_M = (0, 2, 3, 7)
R_BYTES = (Nil, b"", b"\x00'", b"ab")
# (1-tuples are left out: CrossHair 0.0.110 renders repr(('a',)) as "('a')" during symbolic execution)
R_KEYS = ("a", "q'", 1, (1, 2), (1, "b'", None), None, True, "", 2.5)


def r_list_inner(form):
    e = schema.int.min(1)
    return pick((schema.list, schema.list(e), schema.list(schema.list(schema.str("a'"))), schema.list([]),
                 schema.list([e]), schema.list([e, ...]), schema.list([..., e]), schema.list([..., e, ...]),
                 schema.list([schema.int(1), schema.str("a'")]), schema.list([schema.list([e, ...]), ...])), form)


def r_value_schema(i):
    return pick((schema.int, schema.str("a'").len(2), schema.list([schema.int.min(0), ...]).len(1, ...),
                 schema.dict({"k": schema.none, ...: ...}), schema.any(schema.int, schema.none), schema.dict,
                 schema.list([]).len(0), schema.any), i)


def conc(i, hi):
    """The concrete int equal to the symbolic index i (0..hi) - an explicit comparison chain, so the solver
    enumerates the range and everything downstream runs on concrete data."""
    for j in range(hi + 1):
        if i == j:
            return j
    raise IgnoreAttempt("index out of range")


def cb(b):
    return True if b else False


# --------------------------------------------------------------------------- C17: reproducibility
import os as _os  # noqa: E402
import subprocess as _subprocess  # noqa: E402

if UNDER_CROSSHAIR:
    import hash_order as _hash_order
else:
    _hash_order = None

REGEX_GEN = d42.generation._generator._regex_generator
SMALL_LETTERS = "abcd"


class hash_orders:
    """with hash_orders((o0, o1, ...)): ...   - set iteration order inside d42 is chosen by the tape."""

    def __init__(self, order):
        self.order = list(order)

    def __enter__(self):
        self.saved = REGEX_GEN._alphabet["letters"]
        REGEX_GEN._alphabet["letters"] = SMALL_LETTERS
        if _hash_order is not None:
            _hash_order.activate(self.order)
        return self

    def __exit__(self, *exc):
        REGEX_GEN._alphabet["letters"] = self.saved
        if _hash_order is not None:
            _hash_order.deactivate()
        return False


_DIFF_SCRIPT = """
import sys
sys.path.insert(0, %(engine)r)
from hlib import *
REGEX_GEN._alphabet["letters"] = SMALL_LETTERS
with gen_env(%(ints)r, %(chars)r, (), small=True, index_small=True) as t:
    out = %(expr)s
print(ascii(out))
"""


def hashseed_outputs(expr, ints, chars, seeds=(0, 1, 2, 3, 4, 5, 6, 7)):
    """Plain-CPython replay for C17(a): evaluate `expr` in fresh interpreters that differ only in PYTHONHASHSEED."""
    outs = []
    for hs in seeds:
        env = dict(_os.environ)
        env["PYTHONHASHSEED"] = str(hs)
        env.pop("PYTHONPATH", None)
        if _os.environ.get("VERIF_REPO"):
            env["PYTHONPATH"] = _os.environ["VERIF_REPO"]
        code = _DIFF_SCRIPT % dict(engine=_os.path.dirname(_os.path.abspath(__file__)), ints=tuple(ints), chars=tuple(chars), expr=expr)
        cp = _subprocess.run([sys.executable, "-c", code], capture_output=True, text=True, env=env, timeout=120)
        outs.append(cp.stdout.strip() if cp.returncode == 0 else "ERR:" + cp.stderr.strip()[-200:])
    return outs


def same_under_hash_orders(expr, ns, ints, chars, order_a, order_b):
    """True when evaluating `expr` (a Python expression over hlib names and `ns`) gives the same value whatever
    the set iteration order.  Symbolic run: two executions with two solver-chosen orders.  Replay: fresh
    interpreters with different PYTHONHASHSEED (expr must then be closed: ns values are inlined by the caller)."""
    if UNDER_CROSSHAIR:
        env = dict(globals())
        env.update(ns)
        with hash_orders(order_a):
            with gen_env(ints, chars, (), small=True, index_small=True) as t:
                a = eval(expr, env)
        with hash_orders(order_b):
            with gen_env(ints, chars, (), small=True, index_small=True) as t:
                b = eval(expr, env)
        return a == b
    outs = hashseed_outputs(expr, ints, chars)
    return len(set(outs)) == 1


# --------------------------------------------------------------------------- C18: rollout

RO_KEYS = ("a", "b", "ab", "", "a b", "é", "0", "aa")
RO_SEPS = (".", "a", "..", "__", "-", " ")
RO_KEYSETS = (("a", "b", "ab", "", "a b"), ("b", "0", "é", "b", "0"), ("é", "0", "aa", "b", "a"), ("b", "ab", "a", "b", "ab"),
              ("", "b", "0", "", "é"), ("ab", "a", "b", "aa", "0"), ("a", "a", "a", "a", "b"), ("b", "", "b", "", "é"),
              ("0", "00", "000", "0", "00"), ("a b", "b a", "ab", "ba", "a"))


def ro_flatten(tree, sep, prefix=None):
    """[(flat key, leaf)]: nested mapping -> separator-joined keys; a leaf is ('leaf', payload, is_optional)."""
    out = []
    for k, v in tree:
        path = k if prefix is None else prefix + sep + k
        if isinstance(v, list):
            out += ro_flatten(v, sep, path)
        else:
            out.append((path, v))
    return out


def ro_expected(tree):
    out = {}
    for k, v in tree:
        if isinstance(v, list):
            out[k] = ro_expected(v)
        else:
            out[optional(k) if v[2] else k] = v[1]
    return out


def ro_keys_ok(tree, sep):
    """precondition of C18: sibling keys distinct, keys separator-free, and flattening injective
    ((k1 + sep + k2).split(sep) == [k1, k2] for every parent/child pair)."""
    names = [k for k, v in tree]
    if len(set(names)) != len(names):
        return False
    for k, v in tree:
        if sep in k:
            return False
        if isinstance(v, list):
            if not ro_keys_ok(v, sep):
                return False
            for k2, v2 in v:
                if (k + sep + k2).split(sep) != [k, k2]:
                    return False
    return True


def ro_same(got, want):
    """deep equality incl. optional markers on the same leaves and leaf identity"""
    if not isinstance(got, dict) or len(got) != len(want):
        return False
    for k in want:
        if k not in got:
            return False
        if isinstance(want[k], dict):
            if not ro_same(got[k], want[k]):
                return False
        elif got[k] is not want[k]:
            return False
    return True


def ro_permute(items, sel):
    out = []
    rem = list(items)
    i = 0
    while len(rem) > 1 and i < len(sel):
        idx = sel[i] if 0 <= sel[i] < len(rem) else 0
        out.append(rem.pop(idx))
        i += 1
    return out + rem


def rollout_problem(tree, sep, relaxed, sel):
    if not ro_keys_ok(tree, sep):
        return None
    flat = ro_permute(ro_flatten(tree, sep), sel)
    if relaxed:
        flat.insert(sel[0] % (len(flat) + 1) if len(sel) else 0, (..., ...))
    arg = {}
    for k, leaf in flat:
        if k is ...:
            arg[...] = ...
        else:
            arg[optional(k) if leaf[2] else k] = leaf[1]
    want = ro_expected(tree)
    if relaxed:
        want[...] = ...
    snapshot = list(arg.items())
    got = rollout(arg, separator=sep) if sep != "." else rollout(arg)
    if list(arg.items()) != snapshot:
        return "rollout mutated its argument"
    if relaxed:
        if ... not in got or got[...] is not ...:
            return "top-level ...: ... entry lost"
        got = {k: v for k, v in got.items() if k is not ...}
        want = {k: v for k, v in want.items() if k is not ...}
    if not ro_same(got, want):
        return "rollout(flatten(n)) != n"
    nested = ro_expected(tree)
    again = rollout(nested, separator=sep)
    if not ro_same(again, ro_expected(tree)):
        return "rollout of an already nested mapping is not the identity"
    return ""


# --------------------------------------------------------------------------- C19: v1 -> v2 import rewriting
import ast as _ast  # noqa: E402
import importlib as _importlib  # noqa: E402

from d42.migration.migrate_v1_to_v2 import mapping as MIG_MAPPING, rewrite_imports  # noqa: E402

MIG_ENTRIES = [(m, n, MIG_MAPPING[m][n][0], MIG_MAPPING[m][n][1]) for m in MIG_MAPPING for n in MIG_MAPPING[m]]
MIG_MODULES = list(MIG_MAPPING)
# statement forms that are not the import under test: (source, is a top-level from-import that the rewriter touches)
MIG_OTHER = (
    "x = 1\n", "import os\n", "from os import path\n", "from . import sibling\n", "from district42 import *\n",
    "def f():\n    from district42 import schema\n    return schema\n", '"""doc"""\n', "# from district42 import schema\n",
    "if x:\n    y = 2\nelse:\n    y = 3\n", "from district42 import schema as s  # noqa\n", "z = (1,\n     2)\n", "from __future__ import annotations\n",
    't = "\u0441\u0445\u0435\u043c\u0430 \u00e9"\n', "from .valera import validate\n", "from ..district42.errors import DeclarationError as DE\n",
    "from district42 import optional\n", "\n", "try:\n    from district42 import schema\nexcept ImportError:\n    schema = None\n",
)


def mig_import_source(module, names, layout):
    """names: [(name, asname or None)]"""
    parts = ["%s as %s" % (n, a) if a else n for n, a in names]
    if layout == 0:
        return "from %s import %s\n" % (module, ", ".join(parts))
    if layout == 1:
        return "from %s import (\n%s)\n" % (module, "".join("    %s,\n" % p for p in parts))
    if layout == 2:
        return "from %s import \\\n    %s\n" % (module, ", \\\n    ".join(parts))
    if layout == 3:
        return "from %s import (%s,  # comment\n    )\n" % (module, ", ".join(parts))
    return "from %s import (\n%s)  # noqa: F401\n" % (module, "".join("    %s,\n" % p for p in parts))


def mig_expected_bindings(module, names):
    out = set()
    for n, a in names:
        if module in MIG_MAPPING and n in MIG_MAPPING[module]:
            nm, nn = MIG_MAPPING[module][n]
            out.add((nm, nn, a, a or n))      # (module, name, asname, local name that must stay bound)
        else:
            out.add((module, n, a, a or n))
    return out


def mig_problem(source):
    """'' when rewrite_imports(source) meets C19 on this module (source must be valid Python)."""
    before = _ast.parse(source)
    has_from = any(isinstance(n, _ast.ImportFrom) for n in before.body)
    out = rewrite_imports(source, MIG_MAPPING)
    if out is None:
        for n in before.body:
            if isinstance(n, _ast.ImportFrom) and n.level == 0 and n.module in MIG_MAPPING and \
                    any(a.name in MIG_MAPPING[n.module] for a in n.names):
                return "reports nothing to do although a mapped name is imported"
        return ""
    if not isinstance(out, str):
        return "result is neither None nor a string"
    try:
        after = _ast.parse(out)
    except SyntaxError:
        return "result is not valid Python"
    j = 0
    body = after.body
    for node in before.body:
        if isinstance(node, _ast.ImportFrom) and node.level == 0:
            want = mig_expected_bindings(node.module, [(a.name, a.asname) for a in node.names])
            got = set()
            while j < len(body) and isinstance(body[j], _ast.ImportFrom) and body[j].level == 0 and len(got) < len(want):
                for a in body[j].names:
                    got.add((body[j].module, a.name, a.asname, a.asname or a.name))
                j += 1
            if got != want:
                return "from-import of %s is not replaced by the expected imports" % node.module
        else:
            if j >= len(body) or _ast.dump(body[j]) != _ast.dump(node):
                return "another statement is dropped, altered or reordered"
            j += 1
    if j != len(body):
        return "extra statements in the result"
    return ""


def mig_entry_problem(i, alias):
    module, name, nm, nn = MIG_ENTRIES[i]
    try:
        target = getattr(_importlib.import_module(nm), nn)
    except Exception as ex:
        return "mapping target %s.%s is not importable (%s)" % (nm, nn, type(ex).__name__)
    del target
    src = "from %s import %s%s\nvalue = 1\n" % (module, name, " as local_name" if alias else "")
    return mig_problem(src)
