"""Small helpers shared by driver, worker and replay (no crosshair / d42 imports here)."""
import math


def ser(v):
    """Python expression that rebuilds a realised counterexample value exactly."""
    if v is None or isinstance(v, bool):
        return repr(v)
    if isinstance(v, int):
        return repr(int(v))
    if isinstance(v, float):
        if math.isnan(v):
            return "float('nan')"
        if math.isinf(v):
            return "float('inf')" if v > 0 else "float('-inf')"
        return "float.fromhex(%r)" % float(v).hex()
    if isinstance(v, str):
        return ascii(str(v))
    if isinstance(v, (bytes, bytearray)):
        return repr(bytes(v))
    if isinstance(v, tuple):
        return "(" + "".join(ser(x) + ", " for x in v) + ")"
    if isinstance(v, list):
        return "[" + ", ".join(ser(x) for x in v) + "]"
    if isinstance(v, dict):
        return "{" + ", ".join(ser(k) + ": " + ser(x) for k, x in v.items()) + "}"
    raise TypeError("cannot serialise counterexample value of type %s" % type(v).__name__)


def ser_args(d):
    return "dict(" + ", ".join("%s=%s" % (k, ser(v)) for k, v in d.items()) + ")"


def show(v, limit=200):
    try:
        s = ser(v)
    except TypeError:
        s = repr(v)
    return s if len(s) <= limit else s[:limit] + "..."
