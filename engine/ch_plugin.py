"""CrossHair configuration used by every harness (see DESIGN.md section 2.2).

* floats are always IEEE-754 doubles (z3 Float64), never reals;
* f-string formatting of a *symbolic* scalar yields the opaque token "<sym>" instead of
  forcing the solver to pick a concrete value (switchable per job: OPAQUE[0]);
* speculative short-circuiting of contract-carrying functions is off;
* the concrete arguments of every counterexample are captured (CAPTURED) so that the driver
  can replay them in plain CPython without parsing CrossHair's message text.
"""

OPAQUE = [True]
CAPTURED = []
STATS = {"paths": 0}


def install():
    import crosshair.core_and_libs  # noqa: F401  (runs CrossHair's own registrations first; they reset the tables)
    from crosshair.libimpl import builtinslib as B
    from crosshair import opcode_intercept as O
    from crosshair import core
    from crosshair.core import CrossHairValue, deep_realize
    from crosshair.tracers import NoTracing

    if getattr(core, "_d42verif_installed", False):
        return
    core._d42verif_installed = True

    # 1. IEEE floats always
    B._PYTYPE_TO_WRAPPER_TYPE[float] = ((B.PreciseIeeeSymbolicFloat, 1.0),)

    # 2. opaque formatting of symbolic scalars
    F = O.FormatStashingValue
    of, os_, or_ = F.__format__, F.__str__, F.__repr__

    def has_sym(v, depth=0):
        if isinstance(v, CrossHairValue):
            return True
        if depth > 6:
            return False
        if isinstance(v, (list, tuple, set, frozenset)):
            return any(has_sym(x, depth + 1) for x in v)
        if isinstance(v, dict):
            return any(has_sym(k, depth + 1) or has_sym(x, depth + 1) for k, x in v.items())
        return False

    def is_sym(v):
        # a symbolic scalar, or a plain container holding one (its repr would realise the leaves)
        with NoTracing():
            return has_sym(v)

    def fmt(self, spec):
        if OPAQUE[0] and is_sym(self.value):
            self.formatted = "<sym>"
            return ""
        return of(self, spec)

    def str_(self):
        if OPAQUE[0] and is_sym(self.value):
            self.formatted = "<sym>"
            return ""
        return os_(self)

    def repr_(self):
        if OPAQUE[0] and is_sym(self.value):
            self.formatted = "<sym>"
            return ""
        return or_(self)

    F.__format__, F.__str__, F.__repr__ = fmt, str_, repr_

    # 3. no speculative short-circuiting
    orig_sc = core.consider_shortcircuit

    def consider(fn, sig, bound, subconditions, allow_interpretation):
        if allow_interpretation:
            return None
        return orig_sc(fn, sig, bound, subconditions, allow_interpretation)

    core.consider_shortcircuit = consider

    # 4. capture realised counterexample arguments
    orig_msg = core.make_counterexample_message

    def make_msg(conditions, args, return_val=None):
        msg = orig_msg(conditions, args, return_val)
        try:
            with NoTracing():
                real = {k: deep_realize(v) for k, v in args.arguments.items()}
            CAPTURED.append(real)
        except Exception as e:  # pragma: no cover
            CAPTURED.append({"__capture_error__": repr(e)})
        return msg

    core.make_counterexample_message = make_msg

    # 5. model of hash randomisation (inactive unless a C17 harness switches it on)
    import hash_order
    hash_order.install()
