"""CrossHair configuration used by every harness (see DESIGN.md section 2.2).

* floats are always IEEE-754 doubles (z3 Float64), never reals;
* f-string formatting of a *symbolic* scalar yields the opaque token "<sym>" instead of
  forcing the solver to pick a concrete value (switchable per job: OPAQUE[0]);
* speculative short-circuiting of contract-carrying functions is off;
* the concrete arguments of every counterexample are captured (CAPTURED) so that the driver
  can replay them in plain CPython without parsing CrossHair's message text.
"""

OPAQUE = [True]
CAPTURED = []
STATS = {"paths": 0}


def install():
    import crosshair.core_and_libs  # noqa: F401  (runs CrossHair's own registrations first; they reset the tables)
    from crosshair.libimpl import builtinslib as B
    from crosshair import opcode_intercept as O
    from crosshair import core
    from crosshair.core import CrossHairValue, deep_realize
    from crosshair.tracers import NoTracing

    if getattr(core, "_d42verif_installed", False):
        return
    core._d42verif_installed = True

    # 1. IEEE floats always
    B._PYTYPE_TO_WRAPPER_TYPE[float] = ((B.PreciseIeeeSymbolicFloat, 1.0),)

    # 2. opaque formatting of symbolic scalars
    F = O.FormatStashingValue
    of, os_, or_ = F.__format__, F.__str__, F.__repr__

    def has_sym(v, depth=0):
        if isinstance(v, CrossHairValue):
            return True
        if depth > 6:
            return False
        if isinstance(v, (list, tuple, set, frozenset)):
            return any(has_sym(x, depth + 1) for x in v)
        if isinstance(v, dict):
            return any(has_sym(k, depth + 1) or has_sym(x, depth + 1) for k, x in v.items())
        return False

    def is_sym(v):
        # a symbolic scalar, or a plain container holding one (its repr would realise the leaves)
        with NoTracing():
            return has_sym(v)

    def fmt(self, spec):
        if OPAQUE[0] and is_sym(self.value):
            self.formatted = "<sym>"
            return ""
        return of(self, spec)

    def str_(self):
        if OPAQUE[0] and is_sym(self.value):
            self.formatted = "<sym>"
            return ""
        return os_(self)

    def repr_(self):
        if OPAQUE[0] and is_sym(self.value):
            self.formatted = "<sym>"
            return ""
        return or_(self)

    F.__format__, F.__str__, F.__repr__ = fmt, str_, repr_

    # 3. no speculative short-circuiting
    orig_sc = core.consider_shortcircuit

    def consider(fn, sig, bound, subconditions, allow_interpretation):
        if allow_interpretation:
            return None
        return orig_sc(fn, sig, bound, subconditions, allow_interpretation)

    core.consider_shortcircuit = consider

    # 4. capture realised counterexample arguments
    orig_msg = core.make_counterexample_message

    def make_msg(conditions, args, return_val=None):
        msg = orig_msg(conditions, args, return_val)
        try:
            with NoTracing():
                real = {k: deep_realize(v) for k, v in args.arguments.items()}
            CAPTURED.append(real)
        except Exception as e:  # pragma: no cover
            CAPTURED.append({"__capture_error__": repr(e)})
        return msg

    core.make_counterexample_message = make_msg

    # 6. CrossHair 0.0.110 models a non-MULTILINE `$` as end-of-string; in CPython it also matches just before one
    #    trailing newline.  Rewrite every such `$` in the parsed pattern into the equivalent lookahead (?=\n?\Z),
    #    which the model handles (found when a seeded change - alphabet check via re.match(... + "$") - was "confirmed").
    from crosshair.libimpl import relib as R
    import re as _re
    orig_parse = R.parse
    P = R.re_parser

    def fix_dollar(sub):
        data = sub.data if hasattr(sub, "data") else sub
        for i, item in enumerate(data):
            op, arg = item
            if op is P.AT and arg is P.AT_END:
                data[i] = orig_parse("(?=\\n?\\Z)", 0).data[0]
            elif op is P.SUBPATTERN:
                fix_dollar(arg[3])
            elif op is P.BRANCH:
                for alt in arg[1]:
                    fix_dollar(alt)
            elif op in (P.MAX_REPEAT, P.MIN_REPEAT) or op is getattr(P, "POSSESSIVE_REPEAT", None):
                fix_dollar(arg[2])
            elif op in (P.ASSERT, P.ASSERT_NOT):
                fix_dollar(arg[1])
            elif op is getattr(P, "ATOMIC_GROUP", None):
                fix_dollar(arg)
            elif op is getattr(P, "GROUPREF_EXISTS", None):
                fix_dollar(arg[1])
                if arg[2] is not None:
                    fix_dollar(arg[2])

    def parse(pattern, flags=0, *a, **k):
        parsed = orig_parse(pattern, flags, *a, **k)
        try:
            fl = parsed.state.flags | flags
        except AttributeError:
            fl = flags
        if not (fl & _re.MULTILINE):
            fix_dollar(parsed)
        return parsed

    R.parse = parse

    # 5. model of hash randomisation (inactive unless a C17 harness switches it on)
    import hash_order
    hash_order.install()
