"""Worker process: reads one JSON job per line on stdin, symbolically executes the named
functions of a harness file with CrossHair+z3, writes one '@@RESULT <json>' line per job."""
import importlib.util
import json
import os
import sys
import time
import traceback

HERE = os.path.dirname(os.path.abspath(__file__))
sys.path.insert(0, HERE)
sys.setrecursionlimit(10000)

import z3  # noqa: E402

import ch_plugin  # noqa: E402
from common import ser_args  # noqa: E402

SOLVER = {"checks": 0, "time": 0.0}
_orig_check = z3.Solver.check


def _counting_check(self, *a, **k):
    t = time.perf_counter()
    try:
        return _orig_check(self, *a, **k)
    finally:
        SOLVER["checks"] += 1
        SOLVER["time"] += time.perf_counter() - t


z3.Solver.check = _counting_check

ch_plugin.install()

from crosshair import core  # noqa: E402
from crosshair.core_and_libs import analyze_function, run_checkables  # noqa: E402
from crosshair.options import AnalysisOptionSet  # noqa: E402
from crosshair.statespace import MessageType  # noqa: E402

LAST = {}
_orig_act = core.analyze_calltree


def _act(options, conditions):
    r = _orig_act(options, conditions)
    LAST["status"] = r.verification_status.name
    LAST["confirmed_paths"] = r.num_confirmed_paths
    try:
        LAST["paths"] = int(options.stats["num_paths"]) if options.stats is not None else None
    except Exception:
        LAST["paths"] = None
    return r


core.analyze_calltree = _act

_counter = [0]


def load(path):
    _counter[0] += 1
    name = "d42verif_h%d_%d" % (os.getpid(), _counter[0])
    spec = importlib.util.spec_from_file_location(name, path)
    mod = importlib.util.module_from_spec(spec)
    sys.modules[name] = mod
    spec.loader.exec_module(mod)
    return mod


def analyse(fn, timeout, per_path):
    import collections
    ch_plugin.CAPTURED.clear()
    LAST.clear()
    SOLVER["checks"] = 0
    SOLVER["time"] = 0.0
    stats = collections.Counter()
    opts = AnalysisOptionSet(
        per_condition_timeout=float(timeout),
        per_path_timeout=float(per_path),
        max_uninteresting_iterations=10 ** 9,
        report_all=True,
        stats=stats,
    )
    t0 = time.perf_counter()
    c0 = time.process_time()
    msgs = run_checkables(analyze_function(fn, opts))
    out = {
        "wall_s": round(time.perf_counter() - t0, 3),
        "cpu_s": round(time.process_time() - c0, 3),
        "solver_checks": SOLVER["checks"],
        "solver_s": round(SOLVER["time"], 3),
        "paths": stats.get("num_paths") or LAST.get("paths"),
        "confirmed_paths": LAST.get("confirmed_paths"),
        "status": LAST.get("status"),
    }
    state = "unknown"
    message = ""
    tb = ""
    for m in msgs:
        if m.state in (MessageType.POST_FAIL, MessageType.EXEC_ERR, MessageType.POST_ERR):
            state, message, tb = "refuted", "%s: %s" % (m.state.name, m.message), m.traceback
            break
        if m.state == MessageType.CONFIRMED:
            state, message = "confirmed", m.message
        elif m.state == MessageType.PRE_UNSAT:
            state, message = "pre_unsat", m.message
        elif m.state in (MessageType.SYNTAX_ERR, MessageType.IMPORT_ERR):
            state, message = "error", "%s: %s" % (m.state.name, m.message)
        elif m.state == MessageType.CANNOT_CONFIRM and state == "unknown":
            message = m.message
    if not msgs:
        state, message = "error", "no conditions found on harness function"
    out["state"] = state
    out["message"] = message[:2000]
    out["traceback"] = (tb or "")[-3000:]
    if state == "refuted":
        cap = ch_plugin.CAPTURED[-1] if ch_plugin.CAPTURED else None
        if cap is None or "__capture_error__" in cap:
            out["args_expr"] = None
            out["capture_error"] = repr(cap)
        else:
            try:
                out["args_expr"] = ser_args(cap)
            except TypeError as e:
                out["args_expr"] = None
                out["capture_error"] = repr(e)
    return out


def main():
    for line in sys.stdin:
        line = line.strip()
        if not line:
            continue
        job = json.loads(line)
        res = {"id": job["id"], "fns": {}}
        try:
            ch_plugin.OPAQUE[0] = bool(job.get("opaque", True))
            lru_key, lru_patch = None, None
            if job.get("real_lru_cache"):
                # CrossHair normally bypasses functools.lru_cache (a cache keyed on symbolic arguments would realise them);
                # harnesses whose arguments are concrete menu members may ask for the real cache, to see state hidden in it
                from functools import _lru_cache_wrapper
                lru_key = _lru_cache_wrapper.__call__
                lru_patch = core._PATCH_REGISTRATIONS.pop(lru_key, None)
            mod = load(job["file"])
            for fname in job["fns"]:
                res["fns"][fname] = analyse(getattr(mod, fname), job["timeout"],
                                            job.get("per_path", max(5.0, job["timeout"] / 4)))
                # stop early: once main is refuted the covers are irrelevant
        except BaseException as e:  # noqa
            res["error"] = "".join(traceback.format_exception(type(e), e, e.__traceback__))[-3000:]
        finally:
            try:
                if lru_patch is not None:
                    core._PATCH_REGISTRATIONS[lru_key] = lru_patch
            except NameError:
                pass
        sys.stdout.write("@@RESULT " + json.dumps(res) + "\n")
        sys.stdout.flush()


if __name__ == "__main__":
    main()
