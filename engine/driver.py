"""Driver: generate harnesses for a property, discharge them with CrossHair+z3 in a pool of
worker processes, replay every counterexample / cover witness in plain CPython against the
real code, consult the known-findings file, write the evidence file, print VIOLATION lines."""
import hashlib
import importlib
import json
import os
import queue
import select
import shutil
import subprocess
import sys
import tempfile
import threading
import time

HERE = os.path.dirname(os.path.abspath(__file__))
ROOT = os.path.dirname(HERE)
sys.path.insert(0, HERE)
sys.path.insert(0, ROOT)

VENV_PY = os.path.join(ROOT, ".venv", "bin", "python")
PLAIN_PY = "/venv/bin/python"
NPROC = int(os.environ.get("VERIF_JOBS", "16"))
# development aids (NOT used by the registered commands): check a scratch copy of d42 instead of /repo and write
# evidence/replays elsewhere, so that seeded changes can be evaluated without touching /repo or /verif/evidence
ALT_REPO = os.environ.get("VERIF_REPO") or None
OUT_ROOT = os.environ.get("VERIF_OUT") or ROOT


def child_env():
    env = dict(os.environ)
    env.pop("PYTHONPATH", None)
    if ALT_REPO:
        env["PYTHONPATH"] = ALT_REPO
    return env
EXIT_OK, EXIT_VIOLATION, EXIT_HARNESS_ERROR = 0, 1, 2


# ------------------------------------------------------------------ worker pool

class Worker:
    def __init__(self):
        self.p = None

    def start(self):
        env = child_env()
        env["PYTHONHASHSEED"] = "0"
        self.p = subprocess.Popen([VENV_PY, os.path.join(HERE, "worker.py")], stdin=subprocess.PIPE,
                                  stdout=subprocess.PIPE, stderr=subprocess.DEVNULL, env=env,
                                  text=True, bufsize=1)

    def kill(self):
        if self.p is not None:
            try:
                self.p.kill()
                self.p.wait(timeout=10)
            except Exception:
                pass
            self.p = None

    def run(self, job, hard_timeout):
        if self.p is None or self.p.poll() is not None:
            self.start()
        try:
            self.p.stdin.write(json.dumps(job) + "\n")
            self.p.stdin.flush()
        except Exception as e:
            self.kill()
            return {"id": job["id"], "error": "worker pipe: %r" % (e,), "fns": {}}
        deadline = time.time() + hard_timeout
        buf = ""
        fd = self.p.stdout.fileno()
        while True:
            left = deadline - time.time()
            if left <= 0:
                self.kill()
                return {"id": job["id"], "error": "hard timeout after %ds" % hard_timeout, "fns": {}}
            r, _, _ = select.select([fd], [], [], min(left, 1.0))
            if not r:
                if self.p.poll() is not None:
                    self.kill()
                    return {"id": job["id"], "error": "worker died", "fns": {}}
                continue
            chunk = os.read(fd, 65536).decode("utf-8", "replace")
            if chunk == "":
                self.kill()
                return {"id": job["id"], "error": "worker died (eof)", "fns": {}}
            buf += chunk
            while "\n" in buf:
                line, buf = buf.split("\n", 1)
                if line.startswith("@@RESULT "):
                    return json.loads(line[len("@@RESULT "):])


def run_jobs(jobs, progress=None):
    """jobs: list of dicts (id, file, fns, timeout, opaque); returns {id: result}"""
    q = queue.Queue()
    # longest first
    for j in sorted(jobs, key=lambda j: -j["timeout"] * len(j["fns"])):
        q.put(j)
    results = {}
    lock = threading.Lock()

    def loop():
        w = Worker()
        n = 0
        while True:
            try:
                job = q.get_nowait()
            except queue.Empty:
                break
            hard = sum(job["timeouts"]) * 3 + 120
            res = w.run(job, hard)
            n += 1
            if n >= 25:   # recycle: keeps z3/crosshair memory bounded
                w.kill()
                n = 0
            with lock:
                results[job["id"]] = res
                if progress:
                    progress(job, res)
        w.kill()

    threads = [threading.Thread(target=loop, daemon=True) for _ in range(min(NPROC, max(1, len(jobs))))]
    for t in threads:
        t.start()
    for t in threads:
        t.join()
    return results


# ------------------------------------------------------------------ replay

REPLAY_TEMPLATE = '''#!/venv/bin/python
"""Replay of a solver-found input against the real d42 code (plain CPython, no solver).
property: {prop}   harness: {name}   kind: {kind}
exit 1 = reproduced, 0 = not reproduced"""
import sys, json, traceback
sys.path.insert(0, {engine!r})
SRC = {src!r}
ARGS = {args}
GOAL = {goal!r}
ns = {{"__name__": "replayed_harness"}}
exec(compile(SRC, "<harness {name}>", "exec"), ns)
out = {{"reproduced": False}}
try:
    if not ns["pre_ok"](**ARGS):
        out["note"] = "precondition not met"
    else:
        FUNCS = set()
        if "--trace" in sys.argv:
            def prof(frame, event, arg):
                if event == "call":
                    fn = frame.f_code.co_filename
                    if "/d42/" in fn and "/site-packages/" not in fn:
                        FUNCS.add(fn.split("/d42/", 1)[1] + ":" + frame.f_code.co_qualname)
            sys.setprofile(prof)
        try:
            ok, tag = ns["h"](**ARGS)
        finally:
            sys.setprofile(None)
        out["functions"] = sorted(FUNCS)
        out["ok"] = bool(ok)
        out["tag"] = str(tag)
        if GOAL is None:
            out["reproduced"] = not ok
        else:
            out["reproduced"] = (str(tag) == GOAL)
except BaseException as e:
    if type(e).__name__ == "IgnoreAttempt":
        out["note"] = "assumption not met: %s" % (e,)
    else:
        out["exception"] = "%s: %s" % (type(e).__name__, e)
        out["traceback"] = traceback.format_exc()[-1500:]
        out["reproduced"] = GOAL is None
print("@@REPLAY " + json.dumps(out))
if "--quiet" not in sys.argv:
    print("args:", ARGS)
    print("outcome:", {{k: v for k, v in out.items() if k != "functions"}})
sys.exit(1 if out["reproduced"] else 0)
'''


def replay(prop, spec, args_expr, goal, keep_dir=None, trace=False):
    """Run h(**args) concretely in a fresh plain-CPython process. Returns (dict, script_path)."""
    text = REPLAY_TEMPLATE.format(prop=prop, name=spec.name, kind="cover:" + goal if goal else "main",
                                  engine=HERE, src=spec.source, args=args_expr, goal=goal)
    digest = hashlib.sha1((spec.name + args_expr + str(goal)).encode()).hexdigest()[:10]
    d = keep_dir or tempfile.mkdtemp(prefix="d42verif.replay.")
    os.makedirs(d, exist_ok=True)
    path = os.path.join(d, "%s-%s.py" % (spec.name.replace("/", "_"), digest))
    with open(path, "w") as f:
        f.write(text)
    os.chmod(path, 0o755)
    env = child_env()
    try:
        cp = subprocess.run([PLAIN_PY, path, "--quiet"] + (["--trace"] if trace else []),
                            capture_output=True, text=True, timeout=300, env=env)
        out = None
        for line in cp.stdout.splitlines():
            if line.startswith("@@REPLAY "):
                out = json.loads(line[len("@@REPLAY "):])
        if out is None:
            out = {"reproduced": False, "note": "replay produced no verdict", "stderr": cp.stderr[-1500:]}
    except subprocess.TimeoutExpired:
        out = {"reproduced": False, "note": "replay timeout"}
    if keep_dir is None:
        shutil.rmtree(d, ignore_errors=True)
        path = None
    return out, path


# ------------------------------------------------------------------ known findings

def load_known_findings(prop):
    p = os.path.join(ROOT, "known_findings.json")
    if not os.path.exists(p):
        return []
    data = json.load(open(p))
    return [e for e in data.get("findings", []) if e.get("property") == prop]


def finding_active(entry):
    """Run the entry's witness concretely: exit status 1 <=> the defect is still present."""
    code = entry["witness"]
    env = child_env()
    for k, v in (entry.get("env") or {}).items():
        env[k] = v
    try:
        cp = subprocess.run([PLAIN_PY, "-c", code], capture_output=True, text=True, timeout=120, env=env)
    except subprocess.TimeoutExpired:
        return False
    return cp.returncode == 1


def deepen(spec):
    """thorough tier: every string/bytes length bound `len(x) <= N` of a harness is raised to N + 1 and the
    per-harness budget is multiplied by 5 (on top of whatever the harness module itself adds for the tier)."""
    import re as _re
    if spec.meta.get("no_deepen"):
        return spec

    def bump(m):
        return "len(%s) <= %d" % (m.group(1), int(m.group(2)) + 1)
    spec.source = _re.sub(r"len\((\w+)\) <= (\d)\b", bump, spec.source)
    spec.timeout *= 5
    spec.cover_timeout *= 3
    spec.bounds = (spec.bounds + "; thorough: string/bytes length bounds + 1, budget x5").strip("; ")
    return spec


# ------------------------------------------------------------------ main per-property run

def run_property(prop, tier, seed, only=None, verbose=True):
    t_start = time.time()
    mod = importlib.import_module("harness.%s" % prop.lower())
    kfs = load_known_findings(prop)
    active = []
    for e in kfs:
        if e.get("status") == "fixed":
            continue
        if os.environ.get("VERIF_DEBUG_IGNORE_KF") == "1":
            print("debug: known finding %s ignored (VERIF_DEBUG_IGNORE_KF=1) - expect it to be reported" % e["id"])
            continue
        if finding_active(e):
            active.append(e)
            print("KNOWN-FINDING: property=%s %s [%s]" % (prop, e["what"], e["id"]), flush=True)
        else:
            print("note: known finding %s no longer reproduces; its exclusion is NOT applied" % e["id"],
                  flush=True)
    active_ids = tuple(e["id"] for e in active)

    specs = mod.harnesses(tier, seed, active_ids)
    if tier == "thorough":
        specs = [deepen(sp) for sp in specs]
    if only:
        specs = [s for s in specs if any(o in s.name for o in only)]
    names = [s.name for s in specs]
    assert len(set(names)) == len(names), "duplicate harness names"
    scratch = tempfile.mkdtemp(prefix="d42verif.%s." % prop)
    scale = float(os.environ.get("VERIF_TIMEOUT_SCALE", "1"))
    jobs = []
    by_id = {}
    try:
        for i, s in enumerate(specs):
            path = os.path.join(scratch, "h%04d.py" % i)
            with open(path, "w") as f:
                f.write(s.source)
            # main and each cover are separate jobs so they spread over the pool
            for fn in s.fns:
                to = (s.timeout if fn == "main" else s.cover_timeout) * scale
                jid = "%d:%s" % (i, fn)
                jobs.append({"id": jid, "file": path, "fns": [fn], "timeout": to, "timeouts": [to],
                             "opaque": s.opaque, "real_lru_cache": bool(s.meta.get("real_lru_cache"))})
                by_id[jid] = (s, fn)
        done = [0]

        def progress(job, res):
            done[0] += 1
            if verbose:
                s, fn = by_id[job["id"]]
                r = res.get("fns", {}).get(fn, {})
                print("  [%d/%d] %s.%s: %s %s" % (done[0], len(jobs), s.name, fn,
                                                 r.get("state", "ERROR"),
                                                 ("(%.1fs, %s paths)" % (r.get("wall_s", 0), r.get("paths")))
                                                 if r else res.get("error", "")[:200]), flush=True)

        results = run_jobs(jobs, progress)

        # ---- classify
        obligations = discharged = 0
        states = transitions = replays = 0
        solver_s = 0.0
        cpu_s = 0.0
        violations = []
        known_hits = []
        inconclusive = []
        harness_errors = []
        hunted = []
        samples = []
        functions = set()
        per_harness = []
        replay_dir = os.path.join(OUT_ROOT, "replays", prop)
        for jid, (s, fn) in by_id.items():
            res = results.get(jid, {"error": "no result", "fns": {}})
            r = res.get("fns", {}).get(fn)
            obligations += 1
            if r is None:
                err = res.get("error", "unknown worker failure")
                if "hard timeout" in err:
                    inconclusive.append({"harness": s.name, "fn": fn, "why": err})
                else:
                    harness_errors.append({"harness": s.name, "fn": fn, "why": err[-800:]})
                per_harness.append({"harness": s.name, "fn": fn, "state": "error"})
                continue
            states += int(r.get("confirmed_paths") or 0)
            transitions += int(r.get("solver_checks") or 0)
            solver_s += float(r.get("solver_s") or 0)
            cpu_s += float(r.get("cpu_s") or 0)
            row = {"harness": s.name, "fn": fn, "state": r["state"], "paths": r.get("paths"),
                   "confirmed_paths": r.get("confirmed_paths"), "solver_checks": r.get("solver_checks"),
                   "wall_s": r.get("wall_s")}
            per_harness.append(row)
            if fn == "main":
                if r["state"] == "confirmed":
                    discharged += 1
                elif r["state"] == "refuted":
                    if not r.get("args_expr"):
                        inconclusive.append({"harness": s.name, "fn": fn,
                                             "why": "counterexample could not be captured: %s | %s"
                                                    % (r.get("capture_error"), r["message"][:300])})
                        continue
                    out, path = replay(prop, s, r["args_expr"], None, keep_dir=replay_dir)
                    replays += 1
                    if out.get("reproduced"):
                        violations.append({"harness": s.name, "args": r["args_expr"], "replay": path,
                                           "engine_message": r["message"][:500],
                                           "observed": out.get("exception") or "post-condition false"})
                        row["state"] = "violation"
                    else:
                        if path and os.path.exists(path):
                            os.remove(path)
                        inconclusive.append({"harness": s.name, "fn": fn,
                                             "why": "counterexample did not reproduce in plain CPython "
                                                    "(engine/model mismatch): %s | replay: %s"
                                                    % (r["message"][:300], json.dumps(out)[:300])})
                        row["state"] = "spurious"
                elif r["state"] == "error":
                    harness_errors.append({"harness": s.name, "fn": fn, "why": r["message"][:800]})
                elif s.meta.get("hunt") and r["state"] == "unknown":
                    hunted.append(s.name)
                    row["state"] = "hunt-only (no counterexample found, no proof claimed)"
                else:
                    inconclusive.append({"harness": s.name, "fn": fn,
                                         "why": "%s: %s" % (r["state"], r["message"][:300])})
            else:
                goal = fn[len("cover_"):]
                if r["state"] == "refuted" and r.get("args_expr"):
                    out, _ = replay(prop, s, r["args_expr"], goal, trace=True)
                    replays += 1
                    if out.get("reproduced"):
                        discharged += 1
                        functions.update(out.get("functions") or [])
                        if len(samples) < 40:
                            samples.append({"harness": s.name, "reached": goal, "input": r["args_expr"]})
                        row["state"] = "witnessed"
                    else:
                        inconclusive.append({"harness": s.name, "fn": fn,
                                             "why": "cover witness did not replay: %s" % json.dumps(out)[:300]})
                else:
                    inconclusive.append({"harness": s.name, "fn": fn,
                                         "why": "reachability goal %r not witnessed (%s): %s"
                                                % (goal, r["state"], r["message"][:200])})
        # ---- engine E2 (and other non-CrossHair obligations) contributed by the harness module
        extra_cov = {}
        extra_checks = getattr(mod, "extra_checks", None)
        if extra_checks and not only:
            x = extra_checks(tier, seed, replay_dir, active_ids)
            obligations += x["obligations"]
            discharged += x["discharged"]
            transitions += x.get("queries", 0)
            solver_s += x.get("solver_s", 0.0)
            states += x.get("paths", 0)
            replays += x.get("replays", 0)
            inconclusive += x.get("inconclusive", [])
            violations += x.get("violations", [])
            samples += x.get("samples", [])[:10]
            extra_cov = x.get("coverage", {})
        if os.path.isdir(replay_dir) and not os.listdir(replay_dir):
            os.rmdir(replay_dir)

        # ---- report
        wall = time.time() - t_start
        ev = {
            "property_id": prop,
            "tier": tier,
            "seed": seed,
            "level": "model_checking",
            "coverage": {
                "states": states,
                "transitions": transitions,
                "traces_validated_against_impl": replays,
                "samples": samples or [{"note": "no cover witnesses in this run"}],
                "obligations": obligations,
                "discharged": discharged,
                "inconclusive": inconclusive,
                "bug_hunting_only": hunted,
                "harness_errors": harness_errors,
                "harnesses": len(specs),
                "exhaustive": False,
                "explanation": (
                    "states = execution paths of the real d42 code that CrossHair explored and z3 "
                    "confirmed (post-condition valid on the path); transitions = z3 check() calls; "
                    "obligations = harness post-conditions (must be Confirmed over all paths) + "
                    "reachability twins (must be refuted with a witness that replays in CPython); "
                    "traces_validated_against_impl = solver models replayed against the real code."),
                "bounds": sorted({s.bounds for s in specs if s.bounds}),
                "functions_encoded": sorted(functions),
                "functions_declared": sorted({f for s in specs for f in s.functions}),
                "solver": {"engine": "crosshair-tool 0.0.110 + z3 5.1.0", "queries": transitions,
                           "solver_time_s": round(solver_s, 2), "cpu_s": round(cpu_s, 2)},
                "per_harness": per_harness,
                "known_findings_active": [e["id"] for e in active],
            },
            "assumptions": list(getattr(mod, "ASSUMPTIONS", [])),
            "wall_s": round(wall, 2),
            "violations": len(violations),
        }
        extra = getattr(mod, "extra_evidence", None)
        if extra:
            ev["coverage"].update(extra())
        ev["coverage"].update(extra_cov)
        os.makedirs(os.path.join(OUT_ROOT, "evidence"), exist_ok=True)
        with open(os.path.join(OUT_ROOT, "evidence", "%s.json" % prop), "w") as f:
            json.dump(ev, f, indent=1, sort_keys=True)
            f.write("\n")

        print("%s %s: %d harnesses, %d obligations, %d discharged, %d inconclusive, %d harness errors, "
              "%d violations; %d paths confirmed, %d solver queries (%.1fs solver), wall %.1fs"
              % (prop, tier, len(specs), obligations, discharged, len(inconclusive), len(harness_errors),
                 len(violations), states, transitions, solver_s, wall), flush=True)
        for inc in inconclusive:
            print("INCONCLUSIVE %s.%s: %s" % (inc["harness"], inc["fn"], inc["why"][:400]))
        seen_err = set()
        for he in harness_errors:
            if he["why"][-200:] in seen_err:
                continue
            seen_err.add(he["why"][-200:])
            print("HARNESS-ERROR %s.%s: %s" % (he["harness"], he["fn"], he["why"][-600:]))
        for v in violations:
            print("  violated by harness %s with %s -> %s" % (v["harness"], v["args"][:300], v["observed"][:300]))
            print("VIOLATION property=%s replay=%s" % (prop, v["replay"]), flush=True)
        if violations:
            return EXIT_VIOLATION
        if harness_errors:
            return EXIT_HARNESS_ERROR
        return EXIT_OK
    finally:
        shutil.rmtree(scratch, ignore_errors=True)
