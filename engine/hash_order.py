"""Model of hash randomisation for CrossHair runs (property C17).

Under PYTHONHASHSEED the only thing that changes, for the data d42 handles, is the iteration order of
set / frozenset objects (incl. the sets produced by dict-view operators).  While ACTIVE, every time code
under /d42/ iterates a concrete builtin set with more than one element (GET_ITER) or hands one to a C-level
callable that will iterate it (CALL: str.join, list, tuple, ...), the set is replaced by a list holding the
same elements in an order chosen by the solver through the ORDER tape (selection indices).
"""
import dis
import types

ACTIVE = [False]
ORDER = []
POS = [0]
USED = [0]

_DENY = (isinstance, issubclass, type, len, id, set, frozenset, sorted, min, max, sum, any, all, bool, hash)


def permute(x):
    base = sorted(x, key=lambda e: (type(e).__name__, repr(e)))
    out = []
    rem = list(base)
    while len(rem) > 1 and POS[0] < len(ORDER):
        o = ORDER[POS[0]]
        POS[0] += 1
        idx = 0
        for j in range(len(rem) - 1, 0, -1):
            if o == j:
                idx = j
                break
        out.append(rem.pop(idx))
    USED[0] += 1
    return out + rem


class _SetMeta(type):
    def __instancecheck__(cls, inst):      # the patched *name* must keep working in isinstance(x, set)
        return isinstance(inst, cls.__mro__[1])

    def __subclasscheck__(cls, sub):
        return issubclass(sub, cls.__mro__[1])


def _ops(base, name):
    def mk(opname):
        real = getattr(base, opname)

        def op(self, other):
            r = real(self, other)
            return r if r is NotImplemented else wrap(r)
        op.__name__ = opname
        return op
    return {n: mk(n) for n in ("__sub__", "__rsub__", "__or__", "__ror__", "__and__", "__rand__", "__xor__", "__rxor__")}


class NondetSet(set, metaclass=_SetMeta):
    """A set whose iteration order is chosen by the solver (same members, same set algebra)."""

    def __iter__(self):
        if ACTIVE[0] and len(self) > 1:
            return iter(permute(list(set.__iter__(self))))
        return set.__iter__(self)

    def copy(self):
        return NondetSet(set.copy(self))


class NondetFrozenSet(frozenset, metaclass=_SetMeta):
    def __iter__(self):
        if ACTIVE[0] and len(self) > 1:
            return iter(permute(list(frozenset.__iter__(self))))
        return frozenset.__iter__(self)


def wrap(x):
    if type(x) is set:
        return NondetSet(x)
    if type(x) is frozenset:
        return NondetFrozenSet(x)
    return x


for _n, _f in _ops(set, "NondetSet").items():
    setattr(NondetSet, _n, _f)
for _n, _f in _ops(frozenset, "NondetFrozenSet").items():
    setattr(NondetFrozenSet, _n, _f)


def install():
    """(1) the names set / frozenset in every d42 module produce order-controlled sets; (2) results of binary
    operators (-, |, &, ^ on sets and dict views) evaluated in d42 frames are wrapped the same way."""
    import sys
    from crosshair import core
    from crosshair.tracers import COMPOSITE_TRACER, TracingModule, frame_stack_read, frame_stack_write

    BINARY_OP = dis.opmap["BINARY_OP"]

    class HashOrderInterceptor(TracingModule):
        opcodes_wanted = frozenset([BINARY_OP])

        def trace_op(self, frame, codeobj, codenum):
            if not ACTIVE[0] or "/d42/" not in frame.f_code.co_filename:
                return
            oparg = frame.f_code.co_code[frame.f_lasti + 1]
            if oparg not in (1, 7, 10, 12):      # NB_AND, NB_OR, NB_SUBTRACT, NB_XOR (not the in-place forms)
                return
            left = frame_stack_read(frame, -2)
            right = frame_stack_read(frame, -1)
            views = (type({}.keys()), type({}.items()))
            # make the left operand an order-controlled set: its operator then returns an order-controlled result
            if type(left) in (set, frozenset) or (isinstance(left, views) and isinstance(right, (set, frozenset) + views)):
                frame_stack_write(frame, -2, NondetFrozenSet(left) if type(left) is frozenset else NondetSet(left))
                if isinstance(right, views):      # set.__sub__(view) is NotImplemented; give it a set with the same members
                    frame_stack_write(frame, -1, set(right))

    core.register_opcode_patch(HashOrderInterceptor())

    import d42  # noqa: F401
    import d42.generation  # noqa: F401
    import d42.substitution  # noqa: F401
    import d42.representation  # noqa: F401
    import d42.custom_type  # noqa: F401


_PATCHED = []


def activate(order):
    """Switch the model on (only C17 harnesses do): the names set / frozenset of every d42 module produce
    order-controlled sets for the duration.  Everywhere else CrossHair's own handling of set(...) stays in place."""
    import sys
    ORDER[:] = list(order)
    POS[0] = 0
    if not _PATCHED:
        for name, mod in list(sys.modules.items()):
            if (name == "d42" or name.startswith("d42.")) and "set" not in mod.__dict__ and "frozenset" not in mod.__dict__:
                mod.__dict__["set"] = NondetSet
                mod.__dict__["frozenset"] = NondetFrozenSet
                _PATCHED.append(mod)
    ACTIVE[0] = True


def deactivate():
    ACTIVE[0] = False
    for mod in _PATCHED:
        mod.__dict__.pop("set", None)
        mod.__dict__.pop("frozenset", None)
    del _PATCHED[:]
